#!/usr/bin/env python3
# usage: import_seeds.py <wave-id> <property> <wave-label>   e.g. import_seeds.py C17b C17 "fourth wave"
# copies /tmp/wt/<wave-id>/_seed/{patchN.diff,demoN_test.go,notes.json} to /verif/seeded/<wave-id>-N/
import json, os, shutil, sys
sid, prop, label = sys.argv[1], sys.argv[2], sys.argv[3]
src = f'/tmp/wt/{sid}/_seed'
notes = json.load(open(f'{src}/notes.json'))
if isinstance(notes, dict):
    notes = notes.get('changes') or notes.get('seeds') or [notes[k] for k in sorted(notes)]
for n in (1, 2):
    d = f'/verif/seeded/{sid}-{n}'
    os.makedirs(d, exist_ok=True)
    shutil.copy(f'{src}/patch{n}.diff', f'{d}/patch.diff')
    shutil.copy(f'{src}/demo{n}_test.go', f'{d}/demo_test.go')
    nt = notes[n - 1] if n - 1 < len(notes) else {}
    meta = {'id': f'{sid}-{n}', 'property': prop,
            'summary': nt.get('summary', ''), 'needs': nt.get('trigger', ''),
            'files': nt.get('files_functions', ''), 'functions': nt.get('files_functions', ''),
            'author': f'independent sub-agent given only the property text and a scratch worktree ({label})',
            'agent_ran': json.dumps(nt.get('commands', ''))}
    json.dump(meta, open(f'{d}/meta.json', 'w'), indent=1)
    print(d, len(meta['summary']))
