#!/usr/bin/env python3
# Generates /verif/MANIFEST.json from props/*.json and tools/manifest_meta.json
import json, glob, os, subprocess
V='/verif'
meta=json.load(open(V+'/tools/manifest_meta.json'))
props=[json.loads(l)['id'] for l in open(V+'/properties.jsonl')]
claimed={}
for f in sorted(glob.glob(V+'/props/*.json')):
    p=json.load(open(f)); claimed[p['id']]=p
hooks=subprocess.run(['git','-C','/repo','log','--format=%H %s'],capture_output=True,text=True).stdout.strip().split('\n')
hook_commits=[l.split()[0] for l in hooks if l.split(' ',1)[1].startswith('verif:') or l.split(' ',1)[1].startswith('verif hooks:')]
checks=[]
for pid in props:
    if pid not in claimed: continue
    m=meta['checks'][pid]
    checks.append({
      "property_id":pid,
      "quick_cmd":"/verif/bin/govc check -property %s -tier quick"%pid,
      "thorough_cmd":"/verif/bin/govc check -property %s -tier thorough"%pid,
      "evidence_file":"/verif/evidence/%s.json"%pid,
      "replay_cmd_template":"/verif/bin/govc replay {path}",
      "engine":"govc",
      "level_claimed":{"category":m.get("category","proof"),"text":m["text"],"design_ref":m.get("design_ref","DESIGN.md section 7")},
      "level_note":m["note"],
      "technique":m.get("technique","contract-based deductive verification: weakest-precondition style VCs over go/ssa of the real code, contracts in //@ comment files, discharged by z3/cvc5")})
na=[{"property_id":p,"reason":meta['not_applicable'].get(p,"not yet brought under contract (build in progress; see DESIGN.md section 11)")} for p in props if p not in claimed]
man={"version":1,
 "setup_cmd":"cd /verif/govc && GOFLAGS=-mod=vendor GOPROXY=off GOTOOLCHAIN=local go1.26.8 build -o /verif/bin/govc ./cmd/govc",
 "hooks":{"guard":"verif","enable":"-tags verif: comment-only contracts_verif.go files next to the code; govc loads /repo through go/packages with BuildFlags -tags=verif","baseline_off_cmd":"for m in $(cat /w/out/gomods.txt); do MF=$(cd /repo/$m && . /w/out/goenv.sh && gomodflag); (cd /repo/$m && go test $MF -json -vet=off -count=1 -timeout 25m ./...); done","source_commits":hook_commits,"add_only":True},
 "engines":[{"name":"govc","path":"/verif/govc","serves_properties":sorted(claimed),"kind_free_text":"contract-based deductive verifier for Go written for this task: VC generation by symbolic execution of go/ssa (NaiveForm) built from /repo's working tree on every run, contracts as //@ comments in contracts_verif.go (tag verif), loops cut at invariants, calls replaced by callee contracts, obligations discharged by z3 4.8.12 / z3 5.1.0 / cvc5 1.0.3; counterexamples replayed on the real code through go test -overlay"}],
 "checks":checks,
 "notes":meta.get("notes",""),
 "not_applicable":na}
json.dump(man,open(V+'/MANIFEST.json','w'),indent=1)
print("claimed:",sorted(claimed),"hooks:",len(hook_commits))
