#!/bin/bash
# Must-fail self-test of the machinery: every repaired defect is re-introduced (reverse patch of its fix)
# and a few hand mutations are applied, one at a time, in a scratch worktree; the check of the property
# must report a VIOLATION naming the expected obligation. Also re-runs the unchanged tree (must be clean).
WT=/tmp/wt/selftest
OUT=${SELFTEST_OUT:-/verif/selftest/RESULTS.txt}
# SKIPPROP=C04 leaves out the cases of one property (partial run; give another SELFTEST_OUT)
cd /repo && git worktree remove --force $WT 2>/dev/null; git worktree prune; git worktree add --detach $WT HEAD >/dev/null 2>&1 || exit 2
: > $OUT.tmp
fail=0
# ONLYPROP=C14 runs the cases of one property only
grep -v '^#' /verif/selftest/cases.txt | grep -v " ${SKIPPROP:-NONE} " | grep " ${ONLYPROP:-C[0-9][0-9]} " | while read patch prop kind want; do
  [ -z "$patch" ] && continue
  git -C $WT checkout -q -- .
  if ! git -C $WT apply /verif/selftest/$patch; then echo "$patch $prop APPLY-FAILED" | tee -a $OUT.tmp; continue; fi
  r=$(GOVC_FULL_SECS=${GOVC_FULL_SECS:-45} /verif/bin/govc check -property $prop -repo $WT -no-evidence 2>&1)
  if echo "$r" | grep "^$kind" | grep -qF "$want"; then v=DETECTED; else v="NOT-DETECTED"; fi
  n=$(echo "$r" | grep -c "^VIOLATION")
  echo "$patch $prop $v (violations=$n; expected a $kind line containing '$want')" | tee -a $OUT.tmp
done
git -C $WT checkout -q -- .
cd /repo && git worktree remove --force $WT; git worktree prune
mv $OUT.tmp $OUT
grep -c "NOT-DETECTED\|APPLY-FAILED" $OUT
