#!/bin/bash
# usage: tryseed.sh <patch.diff> <property> [more properties...]; applies the patch to /repo, runs the quick checks, reverts.
p=$1; shift
if [ -n "$(git -C /repo status --porcelain)" ]; then echo "REFUSED: /repo has uncommitted changes (commit the contract sync first)"; exit 4; fi
git -C /repo apply "$p" || { echo "APPLY FAILED $p"; exit 3; }
for id in "$@"; do
  /verif/bin/govc check -property $id -no-evidence 2>&1 | grep -E "VIOLATION|UNDECIDED|ERROR|KNOWN|property=" | cut -c1-400
done
git -C /repo checkout -- .
