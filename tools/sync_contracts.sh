#!/bin/bash
# copies the contract mirror into /repo (hook files, comment-only, //go:build verif)
cd /verif/contracts && find . -name contracts_verif.go | while read f; do mkdir -p /repo/$(dirname $f); cp $f /repo/$f; done
