#!/bin/bash
# Applies each behaviour-preserving refactoring in /verif/benign/<id>/patch.diff to a scratch worktree and runs
# the quick checks of every property that has a function in a patched directory. A VIOLATION on such a
# patch is a false alarm of the machinery; UNDECIDED means the function left the contract's reach.
WT=/tmp/wt/benign
OUT=/verif/benign/RESULTS.txt
cd /repo && git worktree remove --force $WT 2>/dev/null; git worktree prune; git worktree add --detach $WT HEAD >/dev/null 2>&1 || exit 2
: > $OUT.tmp
for s in /verif/benign/*/; do
  id=$(basename $s); [ -f $s/patch.diff ] || continue
  [ -n "${ONLY:-}" ] && [[ "$id" != $ONLY ]] && continue
  git -C $WT checkout -q -- . ; git -C $WT apply $s/patch.diff || { echo "$id APPLY-FAILED" | tee -a $OUT.tmp; continue; }
  dirs=$(grep '^+++ b/' $s/patch.diff | sed 's#^+++ b/##' | xargs -n1 dirname | sort -u)
  props=$(python3 - "$dirs" <<'PY'
import json,glob,sys
dirs=sys.argv[1].split()
out=[]
for f in sorted(glob.glob('/verif/props/*.json')):
    d=json.load(open(f))
    if any(fn.split(':')[0] in dirs for fn in d['functions']): out.append(d['id'])
print(' '.join(out))
PY
)
  line="$id:"
  for p in $props; do
    r=$(/verif/bin/govc check -property $p -repo $WT -no-evidence 2>&1)
    v=$(echo "$r" | grep -c "^VIOLATION"); u=$(echo "$r" | grep -c "^UNDECIDED"); e=$(echo "$r" | grep -c "^ERROR")
    obs=$(echo "$r" | grep "^VIOLATION" | sed 's/.*obligation=//' | cut -d' ' -f1 | tr '\n' ',')
    und=$(echo "$r" | grep "^UNDECIDED" | head -2 | cut -c1-160 | tr '\n' ';')
    line="$line $p[viol=$v undecided=$u error=$e $obs $und]"
  done
  echo "$line" | tee -a $OUT.tmp
done
git -C $WT checkout -q -- .
cd /repo && git worktree remove --force $WT; git worktree prune
mv $OUT.tmp $OUT
