#!/bin/bash
# Confirms every seeded change in a scratch worktree of /repo HEAD: applies, builds, full suite equals baseline
# (only the two known net failures), demo fails with the change and passes without. Writes seeded/<id>/confirm.json.
set -u
WT=/tmp/wt/confirm
cd /repo && git worktree remove --force $WT 2>/dev/null; git worktree prune; git worktree add --detach $WT HEAD >/dev/null 2>&1 || exit 2
export GOFLAGS=-mod=mod GOPROXY=off
for s in /verif/seeded/*/; do
  id=$(basename $s)
  [ -n "${ONLY:-}" ] && [[ "$id" != $ONLY ]] && continue
  cd $WT && git checkout -q -- . && git clean -fdq
  dir=$(head -1 $s/demo_test.go | sed -n 's#^// dir: *##p' | tr -d ' \r')
  [ -z "$dir" ] && dir=$(grep -m1 -o 'dir: [a-zA-Z/]*' $s/demo_test.go | sed 's/dir: //')
  res="{\"id\":\"$id\",\"dir\":\"$dir\""
  # demo without the change
  cp $s/demo_test.go $WT/$dir/zz_seed_demo_test.go
  name=$(grep -o 'func TestSeedDemo[0-9]*' $s/demo_test.go | head -1 | sed 's/func //')
  (cd $WT/$dir && timeout 300 go test -vet=off -count=1 -run "^$name\$" . >/tmp/wt/demo_clean.log 2>&1); dc=$?
  rm -f $WT/$dir/zz_seed_demo_test.go
  if ! git -C $WT apply $s/patch.diff 2>/tmp/wt/apply.log; then res="$res,\"applies\":false}"; echo "$res" > $s/confirm.json; echo "$id: does not apply"; continue; fi
  (cd $WT && go build ./... >/tmp/wt/build.log 2>&1); b=$?
  cp $s/demo_test.go $WT/$dir/zz_seed_demo_test.go
  (cd $WT/$dir && timeout 300 go test -vet=off -count=1 -run "^$name\$" . >/tmp/wt/demo_patched.log 2>&1); dp=$?
  rm -f $WT/$dir/zz_seed_demo_test.go
  (cd $WT && timeout 1500 go test -vet=off -count=1 -timeout 25m ./... >/tmp/wt/suite.log 2>&1)
  fails=$(grep -E "^--- FAIL" /tmp/wt/suite.log | awk '{print $3}' | sort -u | tr '\n' ' ')
  pk=$(grep -E "^FAIL\s" /tmp/wt/suite.log | awk '{print $2}' | sort -u | tr '\n' ' ')
  res="$res,\"applies\":true,\"builds\":$([ $b = 0 ] && echo true || echo false),\"demo_passes_clean\":$([ $dc = 0 ] && echo true || echo false),\"demo_fails_patched\":$([ $dp != 0 ] && echo true || echo false),\"suite_failed_tests\":\"$fails\",\"suite_failed_pkgs\":\"$pk\"}"
  echo "$res" > $s/confirm.json
  echo "$id: $res"
done
cd /repo && git worktree remove --force $WT; git worktree prune
