#!/usr/bin/env python3
# Regenerates section 0 of DESIGN.md from tools/design_section0.md and seeded/RESULTS.txt.
import re, json, os
D='/verif/DESIGN.md'
s=open(D).read()
sec=open('/verif/tools/design_section0.md').read()
rows=[]
res={}
if os.path.exists('/verif/seeded/RESULTS.txt'):
    for line in open('/verif/seeded/RESULTS.txt'):
        line=line.strip()
        if not line: continue
        sid=line.split()[0]
        res[sid]=line
for sid in sorted(os.listdir('/verif/seeded')):
    mp='/verif/seeded/%s/meta.json'%sid
    if not os.path.exists(mp): continue
    m=json.load(open(mp))
    line=res.get(sid,'')
    caught=[]
    for pm in re.finditer(r'(C\d\d)\[viol=(\d+) undecided=(\d+) ([^\]]*)\]',line):
        if int(pm.group(2))>0:
            obs=[o for o in pm.group(4).split(',') if o]
            caught.append('%s: %s'%(pm.group(1), ', '.join('`%s`'%o for o in obs[:2])+(' …' if len(obs)>2 else '')))
    if 'APPLY-FAILED' in line: verdict='(patch no longer applies to the repaired tree)'
    elif not line: verdict='(not run)'
    elif caught: verdict='; '.join(caught)
    else: verdict='**missed** — '+m.get('missed_because','the changed function is not under contract')
    what=(m['summary'][:140].rsplit(' ',1)[0]+' …').replace('|','/').replace('\n',' ')
    rows.append('| %s | %s | %s |'%(sid,what,verdict))
table='| seed | change | reported by (failing obligation) |\n|------|--------|----------------------------------|\n'+'\n'.join(rows)
sec=sec.replace('SEEDTABLE',table)
a=s.index('## 0. As built') if '## 0. As built' in s else s.index('## 1. Verdict table')
b=s.index('## 1. Verdict table')
s=s[:a]+sec+s[b:]
open(D,'w').write(s)
print('section 0 written,',len(rows),'seeds')
