#!/bin/bash
# Runs the quick checks of the claimed properties against every seeded change in a scratch worktree
# (never /repo itself) and writes seeded/RESULTS.txt: which check reports which seed.
WT=/tmp/wt/matrix
OUT=/verif/seeded/RESULTS.txt
cd /repo && git worktree remove --force $WT 2>/dev/null; git worktree prune; git worktree add --detach $WT HEAD >/dev/null 2>&1 || exit 2
PROPS=$(python3 -c "import json;print(' '.join(c['property_id'] for c in json.load(open('/verif/MANIFEST.json'))['checks']))")
: > $OUT.tmp
for s in /verif/seeded/*/; do
  id=$(basename $s); [ -f $s/patch.diff ] || continue
  [ -n "${ONLY:-}" ] && [[ "$id" != $ONLY ]] && continue
  git -C $WT checkout -q -- . ; git -C $WT apply $s/patch.diff || { echo "$id APPLY-FAILED" >> $OUT.tmp; continue; }
  own=$(python3 -c "import json;print(json.load(open('$s/meta.json'))['property'])")
  line="$id own=$own:"
  for p in $PROPS; do
    # only the own property and the codec/list neighbours are worth the time
    case "$own:$p" in
      $p:$p|C02:C07|C05:C14|C06:C13|C03:C13) ;;
      *) continue;;
    esac
    r=$(GOVC_FULL_SECS=45 /verif/bin/govc check -property $p -repo $WT -no-evidence 2>&1)
    v=$(echo "$r" | grep -c "^VIOLATION")
    u=$(echo "$r" | grep -c "^UNDECIDED")
    obs=$(echo "$r" | grep "^VIOLATION" | sed 's/.*obligation=//' | cut -d' ' -f1 | tr '\n' ',' )
    line="$line $p[viol=$v undecided=$u $obs]"
  done
  echo "$line" >> $OUT.tmp
  echo "$line"
done
git -C $WT checkout -q -- .
cd /repo && git worktree remove --force $WT; git worktree prune
mv $OUT.tmp $OUT
