package eng

import (
	"fmt"
	"go/token"
	"os"
	"path/filepath"
	"sort"
	"strings"

	"golang.org/x/tools/go/packages"
	"golang.org/x/tools/go/ssa"
	"golang.org/x/tools/go/ssa/ssautil"
)

const ModPath = "github.com/plgd-dev/go-coap/v3"

type Loaded struct {
	Eng      *Engine
	Prog     *ssa.Program
	Pkgs     map[string]*ssa.Package // by repo-relative dir ("net/blockwise")
	Overlaid []string                // contract files supplied from the mirror
	Differs  []string
	Fset     *token.FileSet
}

// Load builds SSA for the given repo-relative package dirs (with -tags verif) and parses contracts.
func Load(repo, verif string, dirs []string) (*Loaded, error) { return LoadOpt(repo, verif, dirs, false) }

// LoadOpt: with preferMirror the /verif/contracts copy overrides /repo's (development).
func LoadOpt(repo, verif string, dirs []string, preferMirror bool) (*Loaded, error) {
	overlay := map[string][]byte{}
	ld := &Loaded{Pkgs: map[string]*ssa.Package{}}
	contractSrc := map[string][]byte{}
	// every package that has a mirror contract participates
	mirror := filepath.Join(verif, "contracts")
	var allDirs []string
	_ = filepath.Walk(mirror, func(p string, info os.FileInfo, err error) error {
		if err == nil && !info.IsDir() && info.Name() == "contracts_verif.go" {
			rel, _ := filepath.Rel(mirror, filepath.Dir(p))
			allDirs = append(allDirs, rel)
		}
		return nil
	})
	sort.Strings(allDirs)
	want := map[string]bool{}
	for _, d := range dirs {
		want[d] = true
	}
	for _, d := range allDirs {
		m, _ := os.ReadFile(filepath.Join(mirror, d, "contracts_verif.go"))
		rp := filepath.Join(repo, d, "contracts_verif.go")
		r, err := os.ReadFile(rp)
		if err != nil || (preferMirror && string(r) != string(m)) {
			overlay[rp] = m
			contractSrc[d] = m
			ld.Overlaid = append(ld.Overlaid, d)
		} else {
			contractSrc[d] = r
			if string(r) != string(m) {
				ld.Differs = append(ld.Differs, d)
			}
		}
	}
	var patterns []string
	for _, d := range dirs {
		patterns = append(patterns, "./"+d)
	}
	env := append(os.Environ(), "GOFLAGS=-mod=mod", "GOPROXY=off", "GOTOOLCHAIN=auto")
	// GOSUMDB must not be "off" (toolchain switch); drop it if set
	var env2 []string
	for _, kv := range env {
		if strings.HasPrefix(kv, "GOSUMDB=") || strings.HasPrefix(kv, "GOTOOLCHAIN=local") {
			continue
		}
		env2 = append(env2, kv)
	}
	cfg := &packages.Config{Mode: packages.LoadAllSyntax, Dir: repo, BuildFlags: []string{"-tags=verif"}, Env: env2, Overlay: overlay}
	pkgs, err := packages.Load(cfg, patterns...)
	if err != nil {
		return nil, err
	}
	var errs []string
	packages.Visit(pkgs, nil, func(p *packages.Package) {
		for _, e := range p.Errors {
			if strings.HasPrefix(p.PkgPath, ModPath) {
				errs = append(errs, e.Error())
			}
		}
	})
	if len(errs) > 0 {
		return nil, fmt.Errorf("load errors: %s", strings.Join(errs, "; "))
	}
	prog, _ := ssautil.AllPackages(pkgs, ssa.NaiveForm|ssa.InstantiateGenerics)
	prog.Build()
	ld.Prog = prog
	if len(pkgs) > 0 {
		ld.Fset = pkgs[0].Fset
	}
	ld.Eng = NewEngine(prog, ld.Fset)
	for _, sp := range prog.AllPackages() {
		path := sp.Pkg.Path()
		if path == ModPath || strings.HasPrefix(path, ModPath+"/") {
			rel := strings.TrimPrefix(strings.TrimPrefix(path, ModPath), "/")
			ld.Pkgs[rel] = sp
			if src, ok := contractSrc[rel]; ok {
				ps := NewPkgSpec(path)
				if err := ParseContractFile(filepath.Join(repo, rel, "contracts_verif.go"), src, ps); err != nil {
					return nil, err
				}
				ld.Eng.Specs[sp] = ps
			}
		}
	}
	std, err := LoadSpecDir(filepath.Join(verif, "govc", "stdspec"))
	if err != nil {
		return nil, err
	}
	ld.Eng.Std = std
	return ld, nil
}
