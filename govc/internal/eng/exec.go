package eng

import (
	"strings"
	"fmt"
	"go/constant"
	"go/token"
	"go/types"
	"math/big"

	"golang.org/x/tools/go/ssa"
)

// value of an SSA operand in the top frame
func (e *Engine) val(st *State, fr *Frame, v ssa.Value) Val {
	switch x := v.(type) {
	case *ssa.Const:
		return e.constVal(st, x)
	case *ssa.Global:
		return VPtr{L: &Loc{Kind: LGlobal, Global: x, Base: x.Type().(*types.Pointer).Elem()}, Elem: x.Type().(*types.Pointer).Elem()}
	case *ssa.Function:
		// a named function used as a value: its identity is a positive constant of its own
		if e.funcIds == nil {
			e.funcIds = map[*ssa.Function]int64{}
		}
		id, ok := e.funcIds[x]
		if !ok {
			id = int64(900000000 + len(e.funcIds))
			e.funcIds[x] = id
		}
		return VFunc{Fn: x, Id: Num(id), Sig: x.Signature}
	case *ssa.Parameter:
		for i, p := range fr.fn.Params {
			if p == x {
				return fr.params[i]
			}
		}
		panic("parameter not found")
	case *ssa.FreeVar:
		for i, p := range fr.fn.FreeVars {
			if p == x {
				return fr.freeVars[i]
			}
		}
		panic("freevar not found")
	case *ssa.Builtin:
		return VFunc{}
	}
	r, ok := fr.regs[v]
	if !ok {
		panic(unsupported(fmt.Sprintf("use of undefined SSA value %s (%T) in %s", v.Name(), v, fr.fn)))
	}
	return r
}

func (e *Engine) constVal(st *State, c *ssa.Const) Val {
	t := c.Type()
	if c.Value == nil {
		return ZeroVal(t)
	}
	switch c.Value.Kind() {
	case constant.Bool:
		return VBool{BoolT(constant.BoolVal(c.Value))}
	case constant.Int:
		n, ok := new(big.Int).SetString(c.Value.ExactString(), 10)
		if !ok {
			panic("bad int const")
		}
		return VInt{NumB(n)}
	case constant.String:
		return e.stringLit(st, constant.StringVal(c.Value))
	}
	panic(unsupported("constant of kind " + c.Value.Kind().String()))
}

const strHeap = "SH$str"

func (e *Engine) stringLit(st *State, s string) Val {
	id, ok := e.strLits[s]
	if !ok {
		e.nextConstObj++
		id = e.nextConstObj
		e.strLits[s] = id
	}
	if len(s) <= 64 {
		h := e.heap(st, strHeap, HeapI)
		for i := 0; i < len(s); i++ {
			st.assume(Eq(Select(Select(h, Num(id)), Num(int64(i))), Num(int64(s[i]))))
		}
	}
	return VString{Num(id), Zero, Num(int64(len(s)))}
}

// ---------- running ----------

type pathEnd struct{}

// Run explores all paths from the given state (bottom frame = function under contract).
func (e *Engine) run(st *State, onReturn func(st *State, results []Val)) {
	work := []*State{st}
	for len(work) > 0 {
		s := work[len(work)-1]
		work = work[:len(work)-1]
		e.paths++
		if e.paths > e.MaxPaths {
			panic(unsupported(fmt.Sprintf("more than %d paths", e.MaxPaths)))
		}
		for !s.dead {
			fr := s.top()
			if fr.idx >= len(fr.block.Instrs) {
				panic("fell off block")
			}
			in := fr.block.Instrs[fr.idx]
			fr.idx++
			forks, done := e.step(s, fr, in, onReturn)
			work = append(work, forks...)
			if done {
				break
			}
		}
	}
}

func (e *Engine) enterBlock(st *State, fr *Frame, b *ssa.BasicBlock) (stop bool) {
	fr.prev = fr.block
	fr.block = b
	fr.idx = 0
	fr.trace = append(fr.trace, b.Index)
	if li := fr.info.loops[b]; li != nil {
		return e.loopHead(st, fr, li)
	}
	return false
}

// step executes one instruction; returns forked states to explore and whether this path ended.
func (e *Engine) step(st *State, fr *Frame, in ssa.Instruction, onReturn func(*State, []Val)) (forks []*State, done bool) {
	switch x := in.(type) {
	case *ssa.DebugRef:
	case *ssa.Alloc:
		e.execAlloc(st, fr, x)
	case *ssa.Store:
		addr := e.val(st, fr, x.Addr).(VPtr)
		e.checkDeref(st, fr, addr, in)
		e.frameCheckStore(st, fr, addr.L, in)
		e.lockCheck(st, fr, addr.L, true, in)
		if addr.L != nil && addr.L.Kind == LHeap {
			st.published = true
		}
		e.store(st, addr.L, e.val(st, fr, x.Val))
	case *ssa.UnOp:
		fr.regs[x] = e.execUnOp(st, fr, x)
	case *ssa.BinOp:
		fr.regs[x] = e.execBinOp(st, fr, x)
	case *ssa.Convert:
		fr.regs[x] = e.execConvert(st, fr, x)
	case *ssa.ChangeType:
		v := e.val(st, fr, x.X)
		if sv, ok := v.(VStruct); ok {
			sv.T = x.Type()
			v = sv
		}
		fr.regs[x] = v
	case *ssa.ChangeInterface:
		v := e.val(st, fr, x.X)
		if ev, ok := v.(VErr); ok && !isErrorType(x.Type()) {
			v = VIface{Tag: Ite(Eq(ev.Id, Zero), Zero, Num(int64(e.typeTag(x.X.Type())))), Data: ev.Id, T: x.Type()}
		}
		fr.regs[x] = v
	case *ssa.MakeInterface:
		fr.regs[x] = e.makeInterface(st, fr, x)
	case *ssa.Extract:
		fr.regs[x] = e.val(st, fr, x.Tuple).(VTuple).E[x.Index]
	case *ssa.Phi:
		for i, p := range fr.block.Preds {
			if p == fr.prev {
				fr.regs[x] = e.val(st, fr, x.Edges[i])
			}
		}
	case *ssa.FieldAddr:
		p := e.val(st, fr, x.X).(VPtr)
		e.checkDeref(st, fr, p, in)
		nl := *p.L
		nl.Path = append(append([]pathStep(nil), p.L.Path...), pathStep{Field: x.Field})
		ft := under(p.Elem).(*types.Struct).Field(x.Field).Type()
		fr.regs[x] = VPtr{L: &nl, Elem: ft}
	case *ssa.Field:
		fr.regs[x] = e.val(st, fr, x.X).(VStruct).F[x.Field]
	case *ssa.IndexAddr:
		fr.regs[x] = e.execIndexAddr(st, fr, x)
	case *ssa.Index:
		fr.regs[x] = e.execIndex(st, fr, x)
	case *ssa.Slice:
		fr.regs[x] = e.execSlice(st, fr, x)
	case *ssa.Lookup:
		fr.regs[x] = e.execLookup(st, fr, x)
	case *ssa.MakeSlice:
		fr.regs[x] = e.execMakeSlice(st, fr, x)
	case *ssa.MakeMap:
		fr.regs[x] = e.execMakeMap(st, fr, x)
	case *ssa.MapUpdate:
		st.published = true
		e.execMapUpdate(st, fr, x)
	case *ssa.MakeClosure:
		var bind []Val
		for _, b := range x.Bindings {
			bind = append(bind, e.val(st, fr, b))
		}
		// the closure keeps its static identity for direct calls and gets an identity as a value
		// (so that it can be stored in maps / passed where only an opaque function value is known)
		cid := e.fresh("closure", IntS)
		st.assume(Gt(cid, Zero))
		fr.regs[x] = VFunc{Fn: x.Fn.(*ssa.Function), Bind: bind, Id: cid, Sig: x.Fn.(*ssa.Function).Signature}
	case *ssa.TypeAssert:
		fr.regs[x] = e.execTypeAssert(st, fr, x)
	case *ssa.Range:
		fr.regs[x] = e.execRange(st, fr, x)
	case *ssa.Next:
		return e.execNext(st, fr, x)
	case *ssa.Call:
		if !callPublishesNothing(x) {
			st.published = true
		}
		return e.execCall(st, fr, x, onReturn)
	case *ssa.Defer:
		var args []Val
		for _, a := range x.Call.Args {
			args = append(args, e.val(st, fr, a))
		}
		if f := x.Call.StaticCallee(); f != nil && len(args) > 0 && strings.HasPrefix(f.String(), "(*sync.") {
			// deferred Unlock of a mutex held through a pointer field: resolve the field now
			if p, ok := args[0].(VPtr); ok {
				args[0] = e.mutexThroughField(st, fr, x.Call.Args[0], p)
			}
		}
		d := deferred{call: &x.Call, args: args}
		if !x.Call.IsInvoke() {
			d.fn = e.val(st, fr, x.Call.Value)
		} else {
			d.fn = e.val(st, fr, x.Call.Value)
		}
		fr.defers = append(fr.defers, d)
	case *ssa.RunDefers:
		st.published = true
		return e.runDefers(st, fr, onReturn)
	case *ssa.Go:
		st.published = true
		e.Assumptions["goroutine spawn in "+fr.fn.String()+" is ignored in the spawner's proof"] = true
	case *ssa.If:
		c := e.val(st, fr, x.Cond).(VBool).T
		tb, fb := fr.block.Succs[0], fr.block.Succs[1]
		if c.IsTrue() {
			return nil, e.enterBlock(st, fr, tb)
		}
		if c.IsFalse() {
			return nil, e.enterBlock(st, fr, fb)
		}
		other := st.clone()
		other.assume(Not(c))
		ofr := other.top()
		if !e.enterBlock(other, ofr, fb) && !other.dead {
			forks = append(forks, other)
		}
		st.assume(c)
		return forks, e.enterBlock(st, fr, tb)
	case *ssa.Jump:
		return nil, e.enterBlock(st, fr, fr.block.Succs[0])
	case *ssa.Return:
		var res []Val
		for _, r := range x.Results {
			res = append(res, e.val(st, fr, r))
		}
		return e.execReturn(st, fr, res, onReturn)
	case *ssa.Panic:
		e.oblige(st, "unreachable@panic", "", e.ordinal(in), False, "explicit panic must be unreachable", in.Pos())
		return nil, true
	case *ssa.Send:
		st.published = true
		// the receiving goroutine is not modelled: a send is an opaque step, recorded in the call log
		e.chanAssumption(fr)
		st.calls = append(st.calls, callRec{target: "chan-send", args: []Val{e.val(st, fr, x.Chan), e.val(st, fr, x.X)}, seq: len(st.calls)})
	case *ssa.MakeChan:
		e.chanAssumption(fr)
		id := e.fresh("chan", IntS)
		st.assume(Gt(id, Zero))
		fr.regs[x] = VChan{Id: id}
		st.calls = append(st.calls, callRec{target: "makechan", res: []Val{VChan{Id: id}}, seq: len(st.calls)})
	case *ssa.Select:
		st.published = true
		// any case may be the one that proceeds; received values are arbitrary
		e.chanAssumption(fr)
		e.chanInterference(st)
		idx := e.fresh("select", IntS)
		lo := Zero
		if !x.Blocking {
			lo = Num(-1)
		}
		st.assume(And(Le(lo, idx), Lt(idx, Num(int64(len(x.States))))))
		out := []Val{VInt{idx}, VBool{e.fresh("recvOk", BoolS)}}
		for i, sc := range x.States {
			if sc.Dir == types.RecvOnly {
				if root := st.frames[0]; root.spec != nil && root.spec.SignalChans && isSignalChan(sc.Chan.Type()) {
					// signal channels are never sent on: a receive completes only once the channel is closed
					ch := e.val(st, fr, sc.Chan).(VChan)
					h := e.heap(st, chanHeap, RowB)
					st.assume(Implies(Eq(idx, Num(int64(i))), Select(h, ch.Id)))
				}
				out = append(out, e.freshVal(st, under(sc.Chan.Type()).(*types.Chan).Elem(), fmt.Sprintf("recv%d", i)))
			} else {
				st.calls = append(st.calls, callRec{target: "chan-send?", args: []Val{e.val(st, fr, sc.Chan), e.val(st, fr, sc.Send)}, seq: len(st.calls)})
			}
		}
		fr.regs[x] = VTuple{out}
		st.calls = append(st.calls, callRec{target: "select", res: out, seq: len(st.calls)})
	default:
		panic(unsupported(fmt.Sprintf("instruction %T", in)))
	}
	return nil, false
}

func (e *Engine) execReturn(st *State, fr *Frame, res []Val, onReturn func(*State, []Val)) ([]*State, bool) {
	if len(st.frames) == 1 {
		onReturn(st, res)
		return nil, true
	}
	// return from an inlined frame
	st.frames = st.frames[:len(st.frames)-1]
	caller := st.top()
	if fr.retHook != nil {
		fr.retHook(st, res)
		return nil, false
	}
	if fr.caller != nil {
		switch len(res) {
		case 0:
			caller.regs[fr.caller] = VTuple{}
		case 1:
			caller.regs[fr.caller] = res[0]
		default:
			caller.regs[fr.caller] = VTuple{res}
		}
	}
	return nil, false
}

func (e *Engine) checkDeref(st *State, fr *Frame, p VPtr, in ssa.Instruction) {
	if p.L == nil {
		e.oblige(st, "nil@deref", "", e.ordinal(in), False, "nil pointer dereference", in.Pos())
		st.dead = true
		return
	}
	if p.L.Kind == LHeap && len(p.L.Path) == 0 && !p.L.Ref.IsConst() {
		e.oblige(st, "nil@deref", "", e.ordinal(in), Ne(p.L.Ref, Zero), "pointer is not nil", in.Pos())
	}
}

func (e *Engine) execAlloc(st *State, fr *Frame, a *ssa.Alloc) {
	et := a.Type().(*types.Pointer).Elem()
	if at, ok := under(et).(*types.Array); ok {
		obj := e.newObject(st)
		e.zeroObject(st, at.Elem(), obj)
		fr.regs[a] = VPtr{L: &Loc{Kind: LElem, Base: at.Elem(), Obj: obj, ArrLen: at.Len()}, Elem: et}
		return
	}
	if fr.info.heapAlloc[a] {
		ref := e.newObject(st)
		l := &Loc{Kind: LHeap, Ref: ref, Base: et}
		e.store(st, l, ZeroVal(et))
		fr.regs[a] = VPtr{L: l, Elem: et}
		return
	}
	e.cellCtr++
	c := &Cell{Name: a.Comment, T: et, id: e.cellCtr}
	fr.cells[a] = c
	st.cellv[c] = ZeroVal(et)
	fr.regs[a] = VPtr{L: &Loc{Kind: LCell, Cell: c, Base: et}, Elem: et}
}

func (e *Engine) execUnOp(st *State, fr *Frame, x *ssa.UnOp) Val {
	v := e.val(st, fr, x.X)
	switch x.Op {
	case token.MUL:
		p := v.(VPtr)
		e.checkDeref(st, fr, p, x)
		if st.dead {
			return ZeroVal(x.Type())
		}
		e.lockCheckRead(st, fr, p.L, x)
		lv := e.load(st, p.L)
		e.noteGuardedValue(st, p.L, lv)
		return lv
	case token.NOT:
		return VBool{Not(v.(VBool).T)}
	case token.SUB:
		ii, _ := intOf(x.Type())
		r := Neg(v.(VInt).T)
		return VInt{e.arith(st, x, ii, r)}
	case token.XOR:
		ii, _ := intOf(x.Type())
		// ^x = -x-1 (signed) ; max - x (unsigned)
		if ii.signed {
			return VInt{Sub(Neg(v.(VInt).T), One)}
		}
		return VInt{Sub(NumB(ii.max()), v.(VInt).T)}
	case token.ARROW:
		e.chanAssumption(fr)
		rv := e.freshVal(st, under(x.X.Type()).(*types.Chan).Elem(), "recv")
		if x.CommaOk {
			return VTuple{[]Val{rv, VBool{e.fresh("recvOk", BoolS)}}}
		}
		return rv
	}
	panic(unsupported("unary " + x.Op.String()))
}

// arith applies Go's result semantics for +,-,* : exact wrap below 64 bits, an overflow obligation at 64.
func (e *Engine) arith(st *State, in ssa.Instruction, ii intInfo, r *Term) *Term {
	if r.IsConst() {
		return ii.wrap(r)
	}
	if ii.bits < 64 {
		return ii.wrap(r)
	}
	if fr := st.top(); fr.spec != nil && fr.spec.Pure {
		// "pure"/mathint functions: machine arithmetic treated as mathematical, recorded as assumption
		e.Assumptions["machine arithmetic treated as mathematical in "+fr.fn.String()] = true
		return r
	}
	e.oblige(st, "arith@"+fmt.Sprintf("%T", in)[5:], "", e.ordinal(in), ii.inRange(r), "64-bit arithmetic does not overflow", in.Pos())
	return r
}

func isIteConstTree(t *Term) bool {
	if t.IsConst() {
		return true
	}
	if t.Op == "ite" {
		return isIteConstTree(t.Args[1]) && isIteConstTree(t.Args[2])
	}
	return false
}

func mapIte(t *Term, f func(c *Term) *Term) *Term {
	if t.Op == "ite" {
		return Ite(t.Args[0], mapIte(t.Args[1], f), mapIte(t.Args[2], f))
	}
	return f(t)
}

// bitAndConst computes x & c for a non-negative constant c (x taken modulo 2^bits first).
func bitAndConst(x *Term, c *big.Int, bits uint) *Term {
	if x.IsConst() {
		m := new(big.Int).Mod(x.N, new(big.Int).Lsh(big.NewInt(1), bits))
		return NumB(new(big.Int).And(m, c))
	}
	res := Zero
	i := uint(0)
	for i < bits {
		if c.Bit(int(i)) == 0 {
			i++
			continue
		}
		j := i
		for j < bits && c.Bit(int(j)) == 1 {
			j++
		}
		// run of ones [i, j)
		part := Mod(Div(x, Pow2(i)), Pow2(j-i))
		if i == 0 {
			part = Mod(x, Pow2(j))
		}
		res = Add(res, Mul(part, Pow2(i)))
		i = j
	}
	return res
}

func bitOf(x *Term, i uint) *Term { return Mod(Div(x, Pow2(i)), Num(2)) }

// bitwise computes a op b for unsigned-interpreted operands of the given width.
func (e *Engine) bitwise(op token.Token, a, b *Term, ii intInfo) *Term {
	mask := new(big.Int).Sub(new(big.Int).Lsh(big.NewInt(1), ii.bits), big.NewInt(1))
	toU := func(t *Term) *Term { // two's complement view
		if ii.signed {
			return Mod(t, Pow2(ii.bits))
		}
		return t
	}
	fromU := func(t *Term) *Term {
		if ii.signed {
			return ii.wrap(t)
		}
		return t
	}
	if isIteConstTree(a) && !a.IsConst() {
		return mapIte(a, func(c *Term) *Term { return e.bitwise(op, c, b, ii) })
	}
	if isIteConstTree(b) && !b.IsConst() {
		return mapIte(b, func(c *Term) *Term { return e.bitwise(op, a, c, ii) })
	}
	ua, ub := toU(a), toU(b)
	if ua.IsConst() && !ub.IsConst() {
		ua, ub = ub, ua
		if op == token.AND_NOT {
			// c &^ x  = c & ~x : fall through to generic below
			ua, ub = ub, ua
		}
	}
	switch op {
	case token.AND:
		if ub.IsConst() {
			return fromU(bitAndConst(ua, ub.N, ii.bits))
		}
	case token.AND_NOT:
		if ub.IsConst() {
			nc := new(big.Int).AndNot(mask, ub.N)
			return fromU(bitAndConst(ua, nc, ii.bits))
		}
	case token.OR:
		if ub.IsConst() {
			// x | c = c + (x & ~c)
			nc := new(big.Int).AndNot(mask, ub.N)
			return fromU(Add(ub, bitAndConst(ua, nc, ii.bits)))
		}
	case token.XOR:
		if ub.IsConst() {
			// x ^ c = (x & ~c) + (c & ~x) = (x&~c) + c - (x&c)
			nc := new(big.Int).AndNot(mask, ub.N)
			return fromU(Sub(Add(bitAndConst(ua, nc, ii.bits), ub), bitAndConst(ua, ub.N, ii.bits)))
		}
	}
	if ii.bits > 16 {
		panic(unsupported(fmt.Sprintf("bitwise %s on two non-constant %d-bit operands", op, ii.bits)))
	}
	res := Zero
	for i := uint(0); i < ii.bits; i++ {
		x, y := bitOf(ua, i), bitOf(ub, i)
		var bit *Term
		switch op {
		case token.AND:
			bit = Ite(And(Eq(x, One), Eq(y, One)), One, Zero)
		case token.OR:
			bit = Ite(Or(Eq(x, One), Eq(y, One)), One, Zero)
		case token.XOR:
			bit = Ite(Ne(x, y), One, Zero)
		case token.AND_NOT:
			bit = Ite(And(Eq(x, One), Eq(y, Zero)), One, Zero)
		}
		res = Add(res, Mul(bit, Pow2(i)))
	}
	return fromU(res)
}

func truncDiv(a, b *Term, signed bool) *Term {
	if !signed {
		return Div(a, b)
	}
	if b.IsConst() && b.N.Sign() > 0 {
		return Ite(Ge(a, Zero), Div(a, b), Neg(Div(Neg(a), b)))
	}
	return Ite(Gt(b, Zero),
		Ite(Ge(a, Zero), Div(a, b), Neg(Div(Neg(a), b))),
		Ite(Ge(a, Zero), Neg(Div(a, Neg(b))), Div(Neg(a), Neg(b))))
}

func (e *Engine) execBinOp(st *State, fr *Frame, x *ssa.BinOp) Val {
	a, b := e.val(st, fr, x.X), e.val(st, fr, x.Y)
	switch x.Op {
	case token.EQL, token.NEQ:
		eq := e.valEq(st, a, b, x.X.Type())
		if x.Op == token.NEQ {
			eq = Not(eq)
		}
		return VBool{eq}
	}
	switch av := a.(type) {
	case VBool:
		bv := b.(VBool)
		switch x.Op {
		case token.LAND, token.AND:
			return VBool{And(av.T, bv.T)}
		case token.LOR, token.OR:
			return VBool{Or(av.T, bv.T)}
		}
	case VTime:
		panic(unsupported("binary op on time.Time"))
	case VString:
		bv := b.(VString)
		if x.Op == token.ADD {
			return e.strConcat(st, av, bv)
		}
		panic(unsupported("string comparison " + x.Op.String()))
	case VInt:
		bv := b.(VInt)
		switch x.Op {
		case token.LSS:
			return VBool{Lt(av.T, bv.T)}
		case token.LEQ:
			return VBool{Le(av.T, bv.T)}
		case token.GTR:
			return VBool{Gt(av.T, bv.T)}
		case token.GEQ:
			return VBool{Ge(av.T, bv.T)}
		}
		ii, ok := intOf(x.Type())
		if !ok {
			panic(unsupported("arithmetic on " + x.Type().String()))
		}
		switch x.Op {
		case token.ADD:
			return VInt{e.arith(st, x, ii, Add(av.T, bv.T))}
		case token.SUB:
			return VInt{e.arith(st, x, ii, Sub(av.T, bv.T))}
		case token.MUL:
			return VInt{e.arith(st, x, ii, Mul(av.T, bv.T))}
		case token.QUO, token.REM:
			if !bv.T.IsConst() || bv.T.N.Sign() == 0 {
				e.oblige(st, "div0@BinOp", "", e.ordinal(x), Ne(bv.T, Zero), "divisor is not zero", x.Pos())
			}
			q := truncDiv(av.T, bv.T, ii.signed)
			if x.Op == token.QUO {
				if ii.signed {
					q = ii.wrap(q) // MinInt / -1
				}
				return VInt{q}
			}
			return VInt{Sub(av.T, Mul(bv.T, q))}
		case token.SHL:
			return VInt{e.shift(st, x, av.T, bv.T, ii, true)}
		case token.SHR:
			return VInt{e.shift(st, x, av.T, bv.T, ii, false)}
		case token.AND, token.OR, token.XOR, token.AND_NOT:
			return VInt{e.bitwise(x.Op, av.T, bv.T, ii)}
		}
	}
	panic(unsupported(fmt.Sprintf("binary %s on %T", x.Op, a)))
}

func (e *Engine) shift(st *State, x *ssa.BinOp, a, k *Term, ii intInfo, left bool) *Term {
	one := func(kk uint) *Term {
		if kk >= ii.bits {
			if left || !ii.signed {
				return Zero
			}
			return Ite(Lt(a, Zero), Num(-1), Zero)
		}
		if left {
			return ii.wrap(Mul(a, Pow2(kk)))
		}
		return Div(a, Pow2(kk))
	}
	if k.IsConst() {
		if k.N.Sign() < 0 {
			e.oblige(st, "neg@shift", "", e.ordinal(x), False, "negative shift count", x.Pos())
			return Zero
		}
		if !k.N.IsUint64() || k.N.Uint64() > 1024 {
			return one(ii.bits)
		}
		return one(uint(k.N.Uint64()))
	}
	if kt, ok := intOf(x.Y.Type()); ok && kt.signed {
		e.oblige(st, "neg@shift", "", e.ordinal(x), Ge(k, Zero), "shift count is not negative", x.Pos())
	}
	res := one(ii.bits)
	for kk := int(ii.bits) - 1; kk >= 0; kk-- {
		res = Ite(Eq(k, Num(int64(kk))), one(uint(kk)), res)
	}
	return res
}

// valEq: Go's == on comparable values
func (e *Engine) valEq(st *State, a, b Val, t types.Type) *Term {
	switch av := a.(type) {
	case VInt:
		return Eq(av.T, b.(VInt).T)
	case VBool:
		return Eq(av.T, b.(VBool).T)
	case VErr:
		return Eq(av.Id, b.(VErr).Id)
	case VTime:
		return Eq(av.T, b.(VTime).T)
	case VSlice: // only comparison with nil is legal Go
		return Eq(av.Obj, b.(VSlice).Obj)
	case VMap:
		return Eq(av.Ref, b.(VMap).Ref)
	case VChan:
		return Eq(av.Id, b.(VChan).Id)
	case VOpaque:
		return Eq(av.Id, b.(VOpaque).Id)
	case VPtr:
		bp := b.(VPtr)
		return e.ptrEq(av, bp)
	case VIface:
		bi := b.(VIface)
		return And(Eq(av.Tag, bi.Tag), Eq(av.Data, bi.Data))
	case VFunc:
		bf := b.(VFunc)
		if av.Id != nil && bf.Id != nil {
			return Eq(av.Id, bf.Id)
		}
		if av.Fn == nil && av.Id == nil { // nil func literal
			if bf.Id != nil {
				return Eq(bf.Id, Zero)
			}
			return BoolT(bf.Fn == nil)
		}
		if bf.Fn == nil && bf.Id == nil {
			if av.Id != nil {
				return Eq(av.Id, Zero)
			}
			return BoolT(av.Fn == nil)
		}
		panic(unsupported("function comparison"))
	case VStruct:
		bs := b.(VStruct)
		st2 := under(t).(*types.Struct)
		var cs []*Term
		for i := range av.F {
			cs = append(cs, e.valEq(st, av.F[i], bs.F[i], st2.Field(i).Type()))
		}
		return And(cs...)
	case VString:
		bs := b.(VString)
		if same(av.Obj, bs.Obj) && same(av.Off, bs.Off) && same(av.Len, bs.Len) {
			return True
		}
		if eq, ok := itoaEq(av, bs); ok {
			return eq
		}
		h := e.heap(st, strHeap, HeapI)
		i := e.fresh("i", IntS)
		return And(Eq(av.Len, bs.Len), Forall([]*Term{i}, nil,
			Implies(And(Le(Zero, i), Lt(i, av.Len)),
				Eq(Select(Select(h, av.Obj), Add(av.Off, i)), Select(Select(h, bs.Obj), Add(bs.Off, i))))))
	}
	panic(unsupported(fmt.Sprintf("== on %T", a)))
}

func (e *Engine) ptrEq(a, b VPtr) *Term {
	if a.L == nil && b.L == nil {
		return True
	}
	if a.L == nil {
		a, b = b, a
	}
	if b.L == nil {
		if a.L.Kind == LHeap && len(a.L.Path) == 0 {
			return Eq(a.L.Ref, Zero)
		}
		return False
	}
	if a.L.Kind == LHeap && b.L.Kind == LHeap && len(a.L.Path) == 0 && len(b.L.Path) == 0 {
		return Eq(a.L.Ref, b.L.Ref)
	}
	if a.L.Kind == LCell && b.L.Kind == LCell && len(a.L.Path) == 0 && len(b.L.Path) == 0 {
		return BoolT(a.L.Cell == b.L.Cell)
	}
	panic(unsupported("pointer comparison"))
}

func (e *Engine) execConvert(st *State, fr *Frame, x *ssa.Convert) Val {
	v := e.val(st, fr, x.X)
	from, to := x.X.Type(), x.Type()
	if ti, ok := intOf(to); ok {
		if fi, ok := intOf(from); ok {
			t := v.(VInt).T
			if fi.min().Cmp(ti.min()) >= 0 && fi.max().Cmp(ti.max()) <= 0 {
				return VInt{t}
			}
			return VInt{ti.wrap(t)}
		}
	}
	// string <-> []byte
	if sv, ok := v.(VString); ok {
		if sl, ok := under(to).(*types.Slice); ok {
			return e.bytesOfString(st, sv, sl.Elem())
		}
		if _, ok := under(to).(*types.Basic); ok {
			return sv
		}
	}
	if sl, ok := v.(VSlice); ok {
		if b, ok := under(to).(*types.Basic); ok && b.Info()&types.IsString != 0 {
			return e.stringOfBytes(st, sl)
		}
	}
	if _, ok := v.(VPtr); ok {
		return v
	}
	panic(unsupported(fmt.Sprintf("conversion %s -> %s", from, to)))
}

func (e *Engine) bytesOfString(st *State, s VString, elem types.Type) Val {
	// nil-ness: []byte("") is non-nil empty in gc, but len 0 either way; we give a fresh object
	obj := e.newObject(st)
	name := elemHeapName(elem, "")
	h := e.heap(st, name, HeapI)
	row := e.fresh("row", RowI)
	sh := e.heap(st, strHeap, HeapI)
	i := e.fresh("i", IntS)
	st.assume(Forall([]*Term{i}, [][]*Term{{Select(row, i)}},
		Implies(And(Le(Zero, i), Lt(i, s.Len)), Eq(Select(row, i), Select(Select(sh, s.Obj), Add(s.Off, i))))))
	st.assume(Forall([]*Term{i}, [][]*Term{{Select(row, i)}}, And(Le(Zero, Select(row, i)), Le(Select(row, i), Num(255)))))
	e.setHeap(st, name, Store(h, obj, row))
	return VSlice{obj, Zero, s.Len, s.Len, elem}
}

func (e *Engine) stringOfBytes(st *State, b VSlice) Val {
	e.nextConstObj++
	sid := e.fresh("str", IntS)
	st.assume(Gt(sid, Zero))
	sh := e.heap(st, strHeap, HeapI)
	h := e.heap(st, elemHeapName(b.Elem, ""), HeapI)
	i := e.fresh("i", IntS)
	st.assume(Forall([]*Term{i}, [][]*Term{{Select(Select(sh, sid), i)}},
		Implies(And(Le(Zero, i), Lt(i, b.Len)), Eq(Select(Select(sh, sid), i), Select(Select(h, b.Obj), Add(b.Off, i))))))
	return VString{sid, Zero, b.Len}
}

func (e *Engine) strConcat(st *State, a, b VString) Val {
	sid := e.fresh("str", IntS)
	st.assume(Gt(sid, Zero))
	sh := e.heap(st, strHeap, HeapI)
	i := e.fresh("i", IntS)
	st.assume(Forall([]*Term{i}, [][]*Term{{Select(Select(sh, sid), i)}},
		And(Implies(And(Le(Zero, i), Lt(i, a.Len)), Eq(Select(Select(sh, sid), i), Select(Select(sh, a.Obj), Add(a.Off, i)))),
			Implies(And(Le(a.Len, i), Lt(i, Add(a.Len, b.Len))), Eq(Select(Select(sh, sid), i), Select(Select(sh, b.Obj), Add(b.Off, Sub(i, a.Len))))))))
	return VString{sid, Zero, Add(a.Len, b.Len)}
}

func (e *Engine) makeInterface(st *State, fr *Frame, x *ssa.MakeInterface) Val {
	v := e.val(st, fr, x.X)
	if isErrorType(x.Type()) {
		// a concrete error value boxed into error: fresh non-nil id (its identity is not modelled)
		id := e.fresh("err", IntS)
		st.assume(Gt(id, Num(1<<20)))
		return VErr{id}
	}
	tag := Num(int64(e.typeTag(x.X.Type())))
	fl := Flatten(v)
	var data *Term
	if len(fl) == 1 && fl[0].S == IntS {
		data = fl[0]
	} else {
		data = e.fresh("box", IntS)
	}
	return VIface{Tag: tag, Data: data, T: x.Type()}
}

var typeTags = map[string]int{}

func (e *Engine) typeTag(t types.Type) int {
	k := t.String()
	if id, ok := typeTags[k]; ok {
		return id
	}
	typeTags[k] = len(typeTags) + 1
	return typeTags[k]
}

func (e *Engine) execTypeAssert(st *State, fr *Frame, x *ssa.TypeAssert) Val {
	v, ok := e.val(st, fr, x.X).(VIface)
	if !ok {
		panic(unsupported("type assertion on " + x.X.Type().String()))
	}
	if _, isIface := under(x.AssertedType).(*types.Interface); isIface {
		panic(unsupported("type assertion to an interface type"))
	}
	ls := leavesOf(x.AssertedType)
	if len(ls) != 1 || ls[0].sort != IntS {
		panic(unsupported("type assertion to a type that is not a single scalar: " + x.AssertedType.String()))
	}
	match := Eq(v.Tag, Num(int64(e.typeTag(x.AssertedType))))
	payload, _ := Unflatten(x.AssertedType, []*Term{Ite(match, v.Data, Zero)})
	if x.CommaOk {
		return VTuple{[]Val{payload, VBool{match}}}
	}
	e.oblige(st, "assert@TypeAssert", "", e.ordinal(x), match, "dynamic type matches the asserted type", x.Pos())
	return payload
}

func (e *Engine) execIndexAddr(st *State, fr *Frame, x *ssa.IndexAddr) Val {
	base := e.val(st, fr, x.X)
	idx := e.val(st, fr, x.Index).(VInt).T
	switch b := base.(type) {
	case VSlice:
		e.oblige(st, "bounds@IndexAddr", "", e.ordinal(x), And(Le(Zero, idx), Lt(idx, b.Len)), "index within slice length", x.Pos())
		return VPtr{L: &Loc{Kind: LElem, Base: b.Elem, Obj: b.Obj, Idx: Add(b.Off, idx)}, Elem: b.Elem}
	case VPtr:
		if b.L != nil && b.L.Kind == LElem && b.L.ArrLen > 0 {
			e.oblige(st, "bounds@IndexAddr", "", e.ordinal(x), And(Le(Zero, idx), Lt(idx, Num(b.L.ArrLen))), "index within array length", x.Pos())
			return VPtr{L: &Loc{Kind: LElem, Base: b.L.Base, Obj: b.L.Obj, Idx: idx}, Elem: b.L.Base}
		}
		if b.L != nil {
			if at, ok := under(b.Elem).(*types.Array); ok {
				e.oblige(st, "bounds@IndexAddr", "", e.ordinal(x), And(Le(Zero, idx), Lt(idx, Num(at.Len()))), "index within array length", x.Pos())
				nl := *b.L
				nl.Path = append(append([]pathStep(nil), b.L.Path...), pathStep{Field: -1, Idx: idx})
				return VPtr{L: &nl, Elem: at.Elem()}
			}
		}
	}
	panic(unsupported(fmt.Sprintf("IndexAddr on %T", base)))
}

func (e *Engine) execIndex(st *State, fr *Frame, x *ssa.Index) Val {
	base := e.val(st, fr, x.X)
	idx := e.val(st, fr, x.Index).(VInt).T
	switch b := base.(type) {
	case VString:
		e.oblige(st, "bounds@Index", "", e.ordinal(x), And(Le(Zero, idx), Lt(idx, b.Len)), "index within string length", x.Pos())
		h := e.heap(st, strHeap, HeapI)
		c := Select(Select(h, b.Obj), Add(b.Off, idx))
		st.assume(Le(Zero, c), Le(c, Num(255)))
		return VInt{c}
	}
	panic(unsupported(fmt.Sprintf("Index on %T", base)))
}

func (e *Engine) execSlice(st *State, fr *Frame, x *ssa.Slice) Val {
	base := e.val(st, fr, x.X)
	opt := func(v ssa.Value) *Term {
		if v == nil {
			return nil
		}
		return e.val(st, fr, v).(VInt).T
	}
	lo, hi, mx := opt(x.Low), opt(x.High), opt(x.Max)
	if lo == nil {
		lo = Zero
	}
	switch b := base.(type) {
	case VSlice:
		capT := b.Cap
		if mx != nil {
			capT = mx
		}
		if hi == nil {
			hi = b.Len
		}
		g := And(Le(Zero, lo), Le(lo, hi), Le(hi, capT))
		if mx != nil {
			g = And(g, Le(mx, b.Cap))
		}
		e.oblige(st, "bounds@Slice", "", e.ordinal(x), g, "slice bounds 0 <= low <= high <= cap", x.Pos())
		return VSlice{b.Obj, Add(b.Off, lo), Sub(hi, lo), Sub(capT, lo), b.Elem}
	case VString:
		if hi == nil {
			hi = b.Len
		}
		e.oblige(st, "bounds@Slice", "", e.ordinal(x), And(Le(Zero, lo), Le(lo, hi), Le(hi, b.Len)), "string slice bounds", x.Pos())
		return VString{b.Obj, Add(b.Off, lo), Sub(hi, lo)}
	case VPtr:
		if b.L != nil && b.L.Kind == LElem && b.L.ArrLen > 0 {
			n := Num(b.L.ArrLen)
			capT := n
			if mx != nil {
				capT = mx
			}
			if hi == nil {
				hi = n
			}
			e.oblige(st, "bounds@Slice", "", e.ordinal(x), And(Le(Zero, lo), Le(lo, hi), Le(hi, capT), Le(capT, n)), "array slice bounds", x.Pos())
			return VSlice{b.L.Obj, lo, Sub(hi, lo), Sub(capT, lo), b.L.Base}
		}
	}
	panic(unsupported(fmt.Sprintf("Slice on %T", base)))
}

func (e *Engine) execMakeSlice(st *State, fr *Frame, x *ssa.MakeSlice) Val {
	ln := e.val(st, fr, x.Len).(VInt).T
	cp := e.val(st, fr, x.Cap).(VInt).T
	e.oblige(st, "neg@MakeSlice", "", e.ordinal(x), And(Le(Zero, ln), Le(ln, cp), Le(cp, Pow2(48))), "make: 0 <= len <= cap (and allocatable)", x.Pos())
	elem := under(x.Type()).(*types.Slice).Elem()
	obj := e.newObject(st)
	e.zeroObject(st, elem, obj)
	return VSlice{obj, Zero, ln, cp, elem}
}

func (e *Engine) chanAssumption(fr *Frame) {
	e.Assumptions["channel operations in "+fr.fn.String()+": the communicating goroutines are not modelled (received values are arbitrary, any select case may proceed, blocking is not analysed)"] = true
}

func isSignalChan(t types.Type) bool {
	c, ok := t.Underlying().(*types.Chan)
	if !ok {
		return false
	}
	s, ok := c.Elem().Underlying().(*types.Struct)
	return ok && s.NumFields() == 0
}

// callPublishesNothing: mutex operations and the builtins that only read cannot make an object
// reachable for other goroutines.
func callPublishesNothing(x *ssa.Call) bool {
	if b, ok := x.Call.Value.(*ssa.Builtin); ok {
		switch b.Name() {
		case "len", "cap", "min", "max", "ssa:deferstack", "ssa:wrapnilchk":
			return true
		}
		return false
	}
	if f := x.Call.StaticCallee(); f != nil {
		return strings.HasPrefix(f.String(), "(*sync.RWMutex).") || strings.HasPrefix(f.String(), "(*sync.Mutex).")
	}
	return false
}
