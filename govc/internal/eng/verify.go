package eng

import (
	"fmt"
	"go/types"
	"sort"
	"strings"

	"golang.org/x/tools/go/ssa"
)

type FuncResult struct {
	Name        string
	Fn          *ssa.Function
	Spec        *FuncSpec
	Obligations []*Obligation
	Err         error // unsupported / contract error: function refused
	Paths       int
}

// shortPkg gives the repo-relative package path used in obligation names.
func shortPkg(p *types.Package) string {
	const mod = "github.com/plgd-dev/go-coap/v3"
	s := p.Path()
	if s == mod {
		return "."
	}
	return strings.TrimPrefix(s, mod+"/")
}

func FuncDisplayName(fn *ssa.Function) string {
	return shortPkg(fn.Pkg.Pkg) + "." + funcKey(fn)
}

// VerifyFunc generates all obligations for one function under contract.
func (e *Engine) VerifyFunc(fn *ssa.Function, spec *FuncSpec) (res *FuncResult) {
	res = &FuncResult{Name: FuncDisplayName(fn), Fn: fn, Spec: spec}
	e.curFn = res.Name
	e.curPkg = fn.Pkg
	e.obs = nil
	e.paths = 0
	// symbol names must not depend on what was verified before: solver behaviour is name/order sensitive
	e.counter = 0
	e.named = nil
	defer func() {
		if r := recover(); r != nil {
			switch x := r.(type) {
			case *Unsupported:
				res.Err = x
			case *SpecError:
				res.Err = x
			default:
				panic(r)
			}
			res.Obligations = nil
		}
	}()
	for h := range spec.Hidden {
		found := false
		for _, en := range spec.Ensures {
			if en.Label == h {
				found = true
			}
		}
		if !found {
			panic(&SpecError{"hide: no ensures clause labelled [" + h + "]"})
		}
	}
	if len(fn.Blocks) == 0 {
		panic(unsupported("function has no body"))
	}
	if spec.SignalChans {
		if why := signalChanSends(fn.Pkg); why != "" {
			panic(unsupported("signal-channels: " + why))
		}
		e.Assumptions["signal channels (chan struct{}) of package "+fn.Pkg.Pkg.Name()+" are only ever closed (no send in the package, checked; context.Done channels by the context package's documentation): a receive completes only after close"] = true
	}
	fi := e.info(fn)
	// every loop must have a contract entry; extra entries mean the contract is stale
	for ord := range spec.Loops {
		if ord >= len(fi.byOrd) {
			panic(&SpecError{fmt.Sprintf("contract of %s names loop %d but the function has %d loop(s)", res.Name, ord, len(fi.byOrd))})
		}
	}
	st := &State{cellv: map[*Cell]Val{}, globals: map[*ssa.Global]Val{}, heaps: map[string]*Term{}, factSet: map[string]bool{},
		locks: map[string]string{}, touched: map[string]bool{}, ghost: map[string]Val{}}
	st.alloc0 = Var("alloc!0", IntS)
	st.alloc = st.alloc0
	st.assume(Gt(st.alloc0, Num(1<<21)))
	st.old = map[string]*Term{}
	fr := &Frame{fn: fn, spec: spec, regs: map[ssa.Value]Val{}, cells: map[*ssa.Alloc]*Cell{}, loops: map[*ssa.BasicBlock]*loopCtx{}, info: fi}
	st.frames = []*Frame{fr}
	var names []string
	for _, p := range fn.Params {
		v := e.freshVal(st, p.Type(), "p_"+p.Name())
		fr.params = append(fr.params, v)
		names = append(names, p.Name())
	}
	// a closure verified on its own: captured variables are arbitrary cells
	fvEnv := map[string]Val{}
	for _, fv := range fn.FreeVars {
		pt, ok := fv.Type().(*types.Pointer)
		if !ok {
			panic(unsupported("captured value that is not a variable reference"))
		}
		e.cellCtr++
		c := &Cell{Name: fv.Name(), T: pt.Elem(), id: e.cellCtr}
		v := e.freshVal(st, pt.Elem(), "fv_"+fv.Name())
		st.cellv[c] = v
		fr.freeVars = append(fr.freeVars, VPtr{L: &Loc{Kind: LCell, Cell: c, Base: pt.Elem()}, Elem: pt.Elem()})
		fvEnv[fv.Name()] = v
	}
	// ghost parameters
	for _, g := range spec.Ghosts {
		t, err := e.resolveType(fn.Pkg, g.Type)
		if err != nil {
			panic(&SpecError{fmt.Sprintf("ghost %s: %v", g.Name, err)})
		}
		st.ghost[g.Name] = e.freshVal(st, t, "g_"+g.Name)
	}
	e.curEntry = &entryInfo{fn: fn, params: fr.params, names: names, heaps0: st.old}
	env := e.entryEnv(fr)
	for k, v := range fvEnv {
		env[k] = v
	}
	fr.extraEnv = fvEnv
	pre := &specCtx{e: e, st: st, env: env, heaps: st.heaps, oldHeaps: st.old, pkg: fn.Pkg}
	for _, u := range spec.Unfolds {
		pre.unfold(u)
	}
	for _, r := range spec.Requires {
		st.assume(pre.evalBool(r.E))
	}
	for _, r := range spec.Assumes {
		st.assume(pre.evalBool(r.E))
		e.Assumptions["entry condition of "+fn.String()+" assumed in the proof of its body and NOT checked at its call sites: "+r.Text] = true
	}
	for _, ap := range spec.Applies {
		e.applyLemma(st, pre, ap, "entry", fn.Pos())
	}
	// snapshot entry heaps (symbols created lazily keep their !0 names)
	entryHeaps := st.old
	_ = entryHeaps
	// vacuity cover for the precondition
	e.cover(st, "requires")
	resultNames := spec.Results
	if len(resultNames) == 0 {
		rs := fn.Signature.Results()
		for i := 0; i < rs.Len(); i++ {
			n := rs.At(i).Name()
			if n == "" || n == "_" {
				n = fmt.Sprintf("r%d", i)
			}
			resultNames = append(resultNames, n)
		}
	}
	if len(resultNames) != fn.Signature.Results().Len() {
		panic(&SpecError{fmt.Sprintf("contract of %s lists %d result names, function returns %d", res.Name, len(resultNames), fn.Signature.Results().Len())})
	}
	nret := 0
	onReturn := func(s *State, results []Val) {
		nret++
		penv := map[string]Val{}
		for k, v := range env {
			penv[k] = v
		}
		for i, n := range resultNames {
			penv[n] = results[i]
		}
		// captured variables: the name is the current value, old(name) the value on entry
		for i, fv := range fn.FreeVars {
			if p, ok := s.frames[0].freeVars[i].(VPtr); ok && p.L != nil && p.L.Kind == LCell {
				if cv, ok := s.cellv[p.L.Cell]; ok {
					penv[fv.Name()] = cv
				}
			}
		}
		ctx := &specCtx{e: e, st: s, env: penv, heaps: s.heaps, oldHeaps: s.old, pkg: fn.Pkg, results: results, goal: true}
		if len(fvEnv) > 0 {
			ctx.oldEnv = fvEnv
		}
		root := s.frames[0]
		for _, w := range spec.Witness {
			wenv := map[string]Val{}
			for k, v := range env {
				wenv[k] = v
			}
			lc := &specCtx{e: e, st: s, env: wenv, heaps: s.heaps, oldHeaps: s.old, fr: root, pkg: fn.Pkg}
			if v, ok := lc.tryEval(w.E); ok {
				penv[w.Name] = v
			} else {
				penv[w.Name] = VInt{e.fresh("unset_"+w.Name, IntS)} // a local it mentions was never declared on this path
			}
		}
		ctx.iters = func(ord int) *Term {
			if ord < len(fi.byOrd) {
				if lc := root.loops[fi.byOrd[ord].head]; lc != nil {
					if lc.iter != nil {
						return lc.iter
					}
					return Num(int64(lc.count))
				}
			}
			return Zero
		}
		for _, u := range spec.Unfolds {
			ctx.unfold(u)
		}
		nb := len(e.obs)
		// postconditions are proved in order; each proved clause may be used for the later ones
		saveFacts, saveSet := s.facts, s.factSet
		s.factSet = make(map[string]bool, len(saveSet))
		for k := range saveSet {
			s.factSet[k] = true
		}
		s.facts = append([]*Term(nil), saveFacts...)
		for i, en := range spec.Ensures {
			lbl := en.Label
			ord := -1
			if lbl == "" {
				ord = i
			}
			g := ctx.evalBool(en.E)
			if en.Except != nil {
				// known finding: the clause is claimed outside the recorded region; inside it a probe
				// obligation (expected to fail) keeps the finding visible.
				ex := (&specCtx{e: e, st: s, env: penv, heaps: s.old, oldHeaps: s.old, pkg: fn.Pkg}).evalBool(en.Except)
				e.oblige(s, "post", lbl, ord, Implies(Not(ex), g), en.Text+"   [outside known finding "+en.Tag+"]", 0)
				e.obligeNoAssume(s, "post", lbl+"!"+en.Tag, ord, Implies(ex, g), en.Text+"   [inside known finding "+en.Tag+"]")
				continue
			}
			if g.IsTrue() {
				e.obligeNoAssume(s, "post", lbl, ord, g, en.Text)
				continue
			}
			e.oblige(s, "post", lbl, ord, g, en.Text, 0)
		}
		s.facts, s.factSet = saveFacts, saveSet
		s.dead = false
		for _, ob := range e.obs[nb:] {
			ob.results = results
		}
		e.lockAtReturn(s, fn, spec, ctx)
		e.cover(s, "return")
	}
	if e.enterBlock(st, fr, fn.Blocks[0]) {
		return res
	}
	e.run(st, onReturn)
	res.Obligations = e.obs
	res.Paths = e.paths
	e.obs = nil
	return res
}

// obligeNoAssume is oblige without adding the goal to the path (used at path ends).
func (e *Engine) obligeNoAssume(st *State, kind, label string, ord int, goal *Term, clause string) {
	if st.dead {
		return
	}
	save := st.facts
	saveSet := st.factSet
	// copy so the goal is not assumed for sibling postconditions
	st.factSet = make(map[string]bool, len(saveSet))
	for k := range saveSet {
		st.factSet[k] = true
	}
	st.facts = append([]*Term(nil), save...)
	if goal.IsTrue() {
		// still record a trivially discharged obligation so that names stay stable
		name := e.curFn + "/" + kind
		if label != "" {
			name += ":" + label
		}
		if ord >= 0 {
			name += fmt.Sprintf("#%d", ord)
		}
		e.obs = append(e.obs, &Obligation{Name: name, Func: e.curFn, Kind: kind, Clause: clause, Premises: nil, Goal: True, entry: e.curEntry, Status: "unsat", Solver: "trivial"})
	} else {
		e.oblige(st, kind, label, ord, goal, clause, 0)
	}
	st.facts = save
	st.factSet = saveSet
	st.dead = false
}

// cover emits a vacuity check: "false" must NOT follow from the path facts.
func (e *Engine) cover(st *State, what string) {
	if st.dead {
		return
	}
	var tr []string
	for _, b := range st.top().trace {
		tr = append(tr, fmt.Sprint(b))
	}
	e.obs = append(e.obs, &Obligation{Name: e.curFn + "/cover:" + what, Func: e.curFn, Kind: "cover",
		Premises: append([]*Term(nil), st.facts...), Goal: False, Cover: true, Path: strings.Join(tr, ">"), entry: e.curEntry})
}

func (e *Engine) resolveType(pkg *ssa.Package, expr string) (types.Type, error) {
	tv, err := types.Eval(e.Fset, pkg.Pkg, 0, expr)
	if err != nil {
		// try with package scope position: Eval with pos 0 uses package scope already
		return nil, err
	}
	if !tv.IsType() {
		return nil, fmt.Errorf("%s is not a type", expr)
	}
	return tv.Type, nil
}

// LookupFunc finds the ssa function for a contract key in a package.
func LookupFunc(prog *ssa.Program, pkg *ssa.Package, key string) *ssa.Function {
	if i := strings.LastIndex(key, "$"); i > 0 {
		parent := LookupFunc(prog, pkg, key[:i])
		if parent == nil {
			return nil
		}
		for _, a := range parent.AnonFuncs {
			if a.Name() == parent.Name()+key[i:] {
				return a
			}
		}
		return nil
	}
	if !strings.HasPrefix(key, "(") {
		return pkg.Func(key)
	}
	cl := strings.Index(key, ")")
	recv := key[1:cl]
	name := key[cl+2:]
	ptr := strings.HasPrefix(recv, "*")
	recv = strings.TrimPrefix(recv, "*")
	tn, ok := pkg.Members[recv].(*ssa.Type)
	if !ok {
		return nil
	}
	var t types.Type = tn.Type()
	named, _ := t.(*types.Named)
	if named != nil && named.TypeParams().Len() > 0 {
		// generic type: the origin method body
		for i := 0; i < named.NumMethods(); i++ {
			m := named.Method(i)
			if m.Name() == name {
				return prog.FuncValue(m)
			}
		}
		return nil
	}
	if ptr {
		t = types.NewPointer(t)
	}
	ms := prog.MethodSets.MethodSet(t)
	for i := 0; i < ms.Len(); i++ {
		if ms.At(i).Obj().Name() == name {
			f := prog.MethodValue(ms.At(i))
			if f != nil && f.Synthetic != "" {
				// wrapper: find the declared method instead
				if fo, ok := ms.At(i).Obj().(*types.Func); ok {
					return prog.FuncValue(fo)
				}
			}
			return f
		}
	}
	return nil
}

// SortedFuncKeys returns contract keys of a package spec in file order.
func SortedFuncKeys(ps *PkgSpec) []string {
	out := append([]string(nil), ps.Order...)
	sort.SliceStable(out, func(i, j int) bool { return false })
	return out
}

// VerifyLemma proves a spec-level lemma: parameters are arbitrary values, requires are assumed, ensures proved.
func (e *Engine) VerifyLemma(pkg *ssa.Package, lm *LemmaSpec) (res *FuncResult) {
	res = &FuncResult{Name: shortPkg(pkg.Pkg) + ".lemma:" + lm.Name}
	e.curFn = res.Name
	e.curPkg = pkg
	e.obs = nil
	e.curEntry = nil
	e.counter = 0
	e.named = nil
	defer func() {
		if r := recover(); r != nil {
			switch x := r.(type) {
			case *Unsupported:
				res.Err = x
			case *SpecError:
				res.Err = x
			default:
				panic(r)
			}
			res.Obligations = nil
		}
	}()
	st := &State{cellv: map[*Cell]Val{}, globals: map[*ssa.Global]Val{}, heaps: map[string]*Term{}, factSet: map[string]bool{},
		locks: map[string]string{}, touched: map[string]bool{}, ghost: map[string]Val{}}
	st.alloc0 = Var("alloc!0", IntS)
	st.alloc = st.alloc0
	st.assume(Gt(st.alloc0, Num(1<<21)))
	st.old = map[string]*Term{}
	st.frames = []*Frame{{regs: map[ssa.Value]Val{}, cells: map[*ssa.Alloc]*Cell{}, loops: map[*ssa.BasicBlock]*loopCtx{}, info: &fnInfo{}}}
	env := map[string]Val{}
	for _, p := range lm.Params {
		t, err := e.resolveType(pkg, p.Type)
		if err != nil {
			panic(&SpecError{fmt.Sprintf("lemma %s: parameter %s: %v", lm.Name, p.Name, err)})
		}
		if p.Type == "int" { // mathematical integer: no range
			env[p.Name] = VInt{e.fresh("l_"+p.Name, IntS)}
			continue
		}
		env[p.Name] = e.freshVal(st, t, "l_"+p.Name)
	}
	ctx := &specCtx{e: e, st: st, env: env, heaps: st.heaps, oldHeaps: st.old, pkg: pkg}
	for _, u := range lm.Unfolds {
		ctx.unfold(u)
	}
	for _, r := range lm.Requires {
		st.assume(ctx.evalBool(r.E))
	}
	e.cover(st, "requires")
	ctx.goal = true
	for i, en := range lm.Ensures {
		lbl := en.Label
		ord := -1
		if lbl == "" {
			ord = i
		}
		e.obligeNoAssume(st, "ensures", lbl, ord, ctx.evalBool(en.E), en.Text)
	}
	res.Obligations = e.obs
	res.Paths = 1
	e.obs = nil
	return res
}

// signalChanSends looks for a send on a chan struct{} anywhere in the package.
func signalChanSends(pkg *ssa.Package) string {
	var visit func(f *ssa.Function) string
	visit = func(f *ssa.Function) string {
		for _, b := range f.Blocks {
			for _, in := range b.Instrs {
				switch x := in.(type) {
				case *ssa.Send:
					if isSignalChan(x.Chan.Type()) {
						return "send on a chan struct{} in " + f.String()
					}
				case *ssa.Select:
					for _, sc := range x.States {
						if sc.Dir == types.SendOnly && isSignalChan(sc.Chan.Type()) {
							return "send on a chan struct{} in " + f.String()
						}
					}
				}
			}
		}
		for _, a := range f.AnonFuncs {
			if r := visit(a); r != "" {
				return r
			}
		}
		return ""
	}
	for _, m := range pkg.Members {
		if f, ok := m.(*ssa.Function); ok {
			if r := visit(f); r != "" {
				return r
			}
		}
		if tn, ok := m.(*ssa.Type); ok {
			for _, t := range []types.Type{tn.Type(), types.NewPointer(tn.Type())} {
				ms := pkg.Prog.MethodSets.MethodSet(t)
				for i := 0; i < ms.Len(); i++ {
					if f := pkg.Prog.MethodValue(ms.At(i)); f != nil && f.Pkg == pkg {
						if r := visit(f); r != "" {
							return r
						}
					}
				}
			}
		}
	}
	return ""
}
