package eng

import (
	"fmt"
	"go/token"
	"go/types"
	"sort"
	"strings"

	"golang.org/x/tools/go/ssa"
)

// ---------- obligations ----------

type Obligation struct {
	Name     string // <pkg>.<Func>/<kind>[:label][#ord]
	Func     string
	Kind     string
	Clause   string
	Premises []*Term
	Goal     *Term
	Path     string
	Pos      token.Position
	Cover    bool // vacuity cover: expected NOT to be provable
	// filled by the solver stage
	Status string // "unsat" (discharged), "sat", "unknown", "timeout"
	Solver string
	Time   float64
	Model  string
	Size   int
	entry  *entryInfo
	results []Val
	text   string
	DefFact map[string]bool // premises that are definitional unfoldings of rec spec functions (may be dropped in a portfolio attempt)
}

type entryInfo struct {
	fn     *ssa.Function
	params []Val
	names  []string
	heaps0 map[string]*Term
}

// ---------- frames and state ----------

type deferred struct {
	call *ssa.CallCommon
	args []Val
	fn   Val
}

type loopCtx struct {
	iter    *Term // symbolic count of completed iterations
	variant *Term // value of the decreases expression at the loop head (nil if none)
	ord     int
	count   int
	locks   string // which mutexes were held (and how) when the loop was entered
}

type Frame struct {
	fn       *ssa.Function
	spec     *FuncSpec
	regs     map[ssa.Value]Val
	cells    map[*ssa.Alloc]*Cell
	block    *ssa.BasicBlock
	idx      int
	prev     *ssa.BasicBlock
	defers   []deferred
	params   []Val
	freeVars []Val
	caller   *ssa.Call // call instruction in the caller (inlined frames)
	loops    map[*ssa.BasicBlock]*loopCtx
	info     *fnInfo
	trace    []int
	isDefer  bool
	retHook  func(st *State, results []Val) // continuation for inlined deferred calls
	extraEnv map[string]Val // captured variables of a closure verified on its own (entry values)
}

func (f *Frame) clone() *Frame {
	n := *f
	n.regs = make(map[ssa.Value]Val, len(f.regs))
	for k, v := range f.regs {
		n.regs[k] = v
	}
	n.cells = make(map[*ssa.Alloc]*Cell, len(f.cells))
	for k, v := range f.cells {
		n.cells[k] = v
	}
	n.loops = make(map[*ssa.BasicBlock]*loopCtx, len(f.loops))
	for k, v := range f.loops {
		n.loops[k] = v
	}
	n.defers = append([]deferred(nil), f.defers...)
	n.trace = append([]int(nil), f.trace...)
	return &n
}

type callRec struct {
	target string // name of the function-valued parameter / interface method
	args   []Val
	res    []Val
	seq    int
	fn     Val // the function value that was called (opaque calls)
}

type State struct {
	frames  []*Frame
	cellv   map[*Cell]Val
	globals map[*ssa.Global]Val
	heaps   map[string]*Term
	facts   []*Term
	factSet map[string]bool
	alloc   *Term // next fresh object id (all live objects are < alloc)
	alloc0  *Term
	// published: this call may already have made an object it allocated reachable for other goroutines
	// (a store into the heap, a map update, a call other than a mutex operation, go, send, select).
	// While false, state read under a freshly acquired lock cannot refer to objects allocated by this call.
	published bool
	old     map[string]*Term // heaps at function entry
	ghost   map[string]Val   // ghost parameters
	calls   []callRec
	locks   map[string]string // mutex key -> "", "R", "W"
	cs      []critSection
	dead    bool
	touched map[string]bool // heaps written since entry (for frame checking)
	defFact map[string]bool // keys of definitional-instance facts
	guardedRefs map[string]string // map reference (key) -> mutex key it was loaded under
	heldLocks   map[string]heldLock // mutex key -> what it guards (recorded at acquire; used when a loop re-acquires it)
	witnessOf map[string]*Term // witnesses of the most recent call of a callee on this path: "Set.f"
}

type heldLock struct {
	ref *Term
	g   guardInfo
}

type critSection struct {
	mode       string
	pre, post  map[string]*Term
	mutex      string
	open       bool
	preFacts   int
}

func (s *State) top() *Frame { return s.frames[len(s.frames)-1] }

func (s *State) clone() *State {
	n := &State{
		cellv:   make(map[*Cell]Val, len(s.cellv)),
		globals: make(map[*ssa.Global]Val, len(s.globals)),
		heaps:   make(map[string]*Term, len(s.heaps)),
		facts:   append([]*Term(nil), s.facts...),
		factSet: make(map[string]bool, len(s.factSet)),
		alloc:   s.alloc, alloc0: s.alloc0, old: s.old, published: s.published,
		ghost: s.ghost,
		calls: append([]callRec(nil), s.calls...),
		locks: make(map[string]string, len(s.locks)),
		cs:    append([]critSection(nil), s.cs...),
		touched: make(map[string]bool, len(s.touched)),
		defFact: s.defFact,
		witnessOf: make(map[string]*Term, len(s.witnessOf)),
	}
	for k, v := range s.witnessOf {
		n.witnessOf[k] = v
	}
	if s.heldLocks != nil {
		n.heldLocks = make(map[string]heldLock, len(s.heldLocks))
		for k, v := range s.heldLocks {
			n.heldLocks[k] = v
		}
	}
	if s.guardedRefs != nil {
		n.guardedRefs = make(map[string]string, len(s.guardedRefs))
		for k, v := range s.guardedRefs {
			n.guardedRefs[k] = v
		}
	}
	for k, v := range s.cellv {
		n.cellv[k] = v
	}
	for k, v := range s.globals {
		n.globals[k] = v
	}
	for k, v := range s.heaps {
		n.heaps[k] = v
	}
	for k := range s.factSet {
		n.factSet[k] = true
	}
	for k, v := range s.locks {
		n.locks[k] = v
	}
	for k := range s.touched {
		n.touched[k] = true
	}
	for _, f := range s.frames {
		n.frames = append(n.frames, f.clone())
	}
	return n
}

func (s *State) assume(ts ...*Term) {
	for _, t := range ts {
		if t == nil || t.IsTrue() {
			continue
		}
		if t.Op == "and" {
			s.assume(t.Args...)
			continue
		}
		k := t.Key()
		if s.factSet[k] {
			continue
		}
		s.factSet[k] = true
		s.facts = append(s.facts, t)
		if t.IsFalse() {
			s.dead = true
		}
	}
}

// ---------- engine ----------

type Engine struct {
	Prog     *ssa.Program
	Fset     *token.FileSet
	Specs    map[*ssa.Package]*PkgSpec
	Std      *PkgSpec
	funcIds  map[*ssa.Function]int64
	counter  int
	cellCtr  int
	obs      []*Obligation
	curFn    string
	curEntry *entryInfo
	ordinals map[ssa.Instruction]int
	infos    map[*ssa.Function]*fnInfo
	sentinel map[*ssa.Global]int64
	sentName map[int64]string
	globInit map[*ssa.Package]*globalState
	MaxPaths int
	paths    int
	Assumptions map[string]bool
	specUF   map[string]*recInfo
	Diag     []string
	curPkg   *ssa.Package
	strLits  map[string]int64
	strLitFacts map[string][]*Term
	nextConstObj int64
	initGS *globalState
	named  map[string]*Term // let-names for large ground spec-function results
}

func NewEngine(prog *ssa.Program, fset *token.FileSet) *Engine {
	return &Engine{Prog: prog, Fset: fset, Specs: map[*ssa.Package]*PkgSpec{},
		ordinals: map[ssa.Instruction]int{}, infos: map[*ssa.Function]*fnInfo{},
		sentinel: map[*ssa.Global]int64{}, sentName: map[int64]string{},
		globInit: map[*ssa.Package]*globalState{}, MaxPaths: 4096,
		Assumptions: map[string]bool{}, specUF: map[string]*recInfo{},
		strLits: map[string]int64{}, strLitFacts: map[string][]*Term{}, nextConstObj: 1000}
}

func (e *Engine) fresh(prefix string, s *Sort) *Term {
	e.counter++
	prefix = sanitize(prefix)
	return Var(fmt.Sprintf("%s!%d", prefix, e.counter), s)
}

func sanitize(s string) string {
	var b strings.Builder
	for _, r := range s {
		switch {
		case r >= 'a' && r <= 'z', r >= 'A' && r <= 'Z', r >= '0' && r <= '9', r == '_', r == '.', r == '$':
			b.WriteRune(r)
		default:
			b.WriteRune('_')
		}
	}
	if b.Len() == 0 {
		return "v"
	}
	return b.String()
}

// freshVal builds a fully symbolic value of type t and assumes its type invariant.
func (e *Engine) freshVal(st *State, t types.Type, hint string) Val {
	ls := leavesOf(t)
	ts := make([]*Term, len(ls))
	for i, l := range ls {
		ts[i] = e.fresh(hint+l.path, l.sort)
	}
	v, _ := Unflatten(t, ts)
	st.assume(typeInvariant(t, v, st.alloc)...)
	return v
}

// ---------- heaps ----------

func heapSort(elemSort *Sort, twoLevel bool) *Sort {
	if twoLevel {
		return ArrS(IntS, ArrS(IntS, elemSort))
	}
	return ArrS(IntS, elemSort)
}

func (e *Engine) heap(st *State, name string, s *Sort) *Term {
	if h, ok := st.heaps[name]; ok {
		return h
	}
	h := Var(name+"!0", s)
	st.heaps[name] = h
	if st.old != nil {
		if _, ok := st.old[name]; !ok {
			st.old[name] = h
		}
	}
	return h
}

func (e *Engine) setHeap(st *State, name string, val *Term) {
	// name the new version so terms stay small
	v := e.fresh(name, val.S)
	st.assume(Eq(v, val))
	st.heaps[name] = v
	st.touched[name] = true
}

func elemHeapName(elem types.Type, path string) string { return "H$" + typeName(elem) + path }
func ptrHeapName(base types.Type, path string) string  { return "P$" + typeName(base) + path }

// pathInfo resolves a Loc path against its base type: returns the leaf-name prefix and the sub type.
func pathInfo(base types.Type, path []pathStep) (string, types.Type) {
	t := base
	prefix := ""
	for _, p := range path {
		switch u := under(t).(type) {
		case *types.Struct:
			f := u.Field(p.Field)
			prefix += "." + f.Name()
			t = f.Type()
		case *types.Array:
			if p.Idx == nil || !p.Idx.IsConst() {
				panic(unsupported("symbolic index into an array embedded in a struct"))
			}
			prefix += fmt.Sprintf(".a%d", p.Idx.N.Int64())
			t = u.Elem()
		default:
			panic(unsupported(fmt.Sprintf("path step into %s", t)))
		}
	}
	return prefix, t
}

// ensureWF asserts (once per state) that every element stored in the initial element heaps of type
// elem is a well-formed Go value (integer ranges, slice header sanity). Needed when elements are read
// under a quantifier, where per-load type invariants cannot be added.
func (e *Engine) ensureWF(st *State, base types.Type, twoLevel bool) {
	key := "wf:" + typeName(base)
	if twoLevel {
		key += ":elem"
	}
	if st.factSet[key] {
		return
	}
	st.factSet[key] = true
	ls := leavesOf(base)
	o := Var("wf_o", IntS)
	i := Var("wf_i", IntS)
	ts := make([]*Term, len(ls))
	var pats [][]*Term
	for k, lf := range ls {
		if twoLevel {
			h := Var(elemHeapName(base, lf.path)+"!0", heapSort(lf.sort, true))
			ts[k] = Select(Select(h, o), i)
		} else {
			h := Var(ptrHeapName(base, lf.path)+"!0", heapSort(lf.sort, false))
			ts[k] = Select(h, o)
		}
		pats = append(pats, []*Term{ts[k]})
	}
	v, _ := Unflatten(base, ts)
	inv := And(typeInvariant(base, v, st.alloc0)...) // objects referenced from the initial heaps existed at entry
	if inv.IsTrue() {
		return
	}
	bound := []*Term{o}
	if twoLevel {
		bound = append(bound, i)
	}
	// only objects that existed at entry: rows of the initial heaps above the allocation frontier are
	// what objects allocated later (also by callees: `ensures fresh(x) && x.f == ...`) are read from
	f := Forall(bound, pats, Implies(Lt(o, st.alloc0), inv))
	st.facts = append(st.facts, f)
}

func (e *Engine) load(st *State, l *Loc) Val {
	switch l.Kind {
	case LCell:
		v, ok := st.cellv[l.Cell]
		if !ok {
			panic(unsupported("read of uninitialised cell " + l.Cell.Name))
		}
		for _, p := range l.Path {
			sv, ok := v.(VStruct)
			if !ok {
				panic(unsupported("path into non-struct cell value"))
			}
			if p.Field >= 0 {
				v = sv.F[p.Field]
			} else {
				if !p.Idx.IsConst() {
					panic(unsupported("symbolic index into local array value"))
				}
				v = sv.F[p.Idx.N.Int64()]
			}
		}
		return v
	case LGlobal:
		v, ok := st.globals[l.Global]
		if !ok {
			v = e.globalValue(st, l.Global)
			st.globals[l.Global] = v
		}
		for _, p := range l.Path {
			v = v.(VStruct).F[p.Field]
		}
		return v
	case LHeap:
		prefix, t := pathInfo(l.Base, l.Path)
		ls := leavesOf(t)
		ts := make([]*Term, len(ls))
		for i, lf := range ls {
			h := e.heap(st, ptrHeapName(l.Base, prefix+lf.path), heapSort(lf.sort, false))
			ts[i] = Select(h, l.Ref)
		}
		v, _ := Unflatten(t, ts)
		st.assume(typeInvariant(t, v, st.alloc)...)
		return v
	case LElem:
		if l.ArrLen > 0 && l.Idx == nil {
			panic(unsupported("load of a whole array object"))
		}
		prefix, t := pathInfo(l.Base, l.Path)
		ls := leavesOf(t)
		ts := make([]*Term, len(ls))
		e.ensureWF(st, l.Base, true)
		for i, lf := range ls {
			h := e.heap(st, elemHeapName(l.Base, prefix+lf.path), heapSort(lf.sort, true))
			ts[i] = Select(Select(h, l.Obj), l.Idx)
		}
		v, _ := Unflatten(t, ts)
		st.assume(typeInvariant(t, v, st.alloc)...)
		return v
	}
	panic("bad loc")
}

func setPath(v Val, path []pathStep, nv Val) Val {
	if len(path) == 0 {
		return nv
	}
	sv, ok := v.(VStruct)
	if !ok {
		panic(unsupported("store through path into non-struct"))
	}
	i := path[0].Field
	if i < 0 {
		if !path[0].Idx.IsConst() {
			panic(unsupported("symbolic index store into local array value"))
		}
		i = int(path[0].Idx.N.Int64())
	}
	nf := append([]Val(nil), sv.F...)
	nf[i] = setPath(sv.F[i], path[1:], nv)
	return VStruct{T: sv.T, F: nf}
}

func (e *Engine) store(st *State, l *Loc, v Val) {
	switch l.Kind {
	case LCell:
		if len(l.Path) == 0 {
			st.cellv[l.Cell] = v
		} else {
			st.cellv[l.Cell] = setPath(st.cellv[l.Cell], l.Path, v)
		}
	case LGlobal:
		panic(unsupported("store to package-level variable " + l.Global.Name()))
	case LHeap:
		prefix, t := pathInfo(l.Base, l.Path)
		ls := leavesOf(t)
		ts := Flatten(v)
		if len(ts) != len(ls) {
			panic(fmt.Sprintf("store: leaf mismatch for %s: %d vs %d", t, len(ts), len(ls)))
		}
		for i, lf := range ls {
			name := ptrHeapName(l.Base, prefix+lf.path)
			h := e.heap(st, name, heapSort(lf.sort, false))
			e.setHeap(st, name, Store(h, l.Ref, ts[i]))
		}
	case LElem:
		prefix, t := pathInfo(l.Base, l.Path)
		ls := leavesOf(t)
		ts := Flatten(v)
		if len(ts) != len(ls) {
			panic(fmt.Sprintf("store: leaf mismatch for %s: %d vs %d", t, len(ts), len(ls)))
		}
		for i, lf := range ls {
			name := elemHeapName(l.Base, prefix+lf.path)
			if e.initGS != nil {
				// package initialiser: objects are constant ids; record the content as a fact about the initial heap
				e.initGS.facts = append(e.initGS.facts, Eq(Select(Select(Var(name+"!0", heapSort(lf.sort, true)), l.Obj), l.Idx), ts[i]))
				continue
			}
			h := e.heap(st, name, heapSort(lf.sort, true))
			e.setHeap(st, name, Store(h, l.Obj, Store(Select(h, l.Obj), l.Idx, ts[i])))
		}
	}
}

// newObject allocates a fresh object id.
func (e *Engine) newObject(st *State) *Term {
	o := st.alloc
	st.alloc = Add(st.alloc, One)
	return o
}

// zeroObject makes rows of a fresh object read as the zero value for all leaf heaps of elem.
func (e *Engine) zeroObject(st *State, elem types.Type, obj *Term) {
	if e.initGS != nil {
		return
	}
	for _, lf := range leavesOf(elem) {
		name := elemHeapName(elem, lf.path)
		hs := heapSort(lf.sort, true)
		h := e.heap(st, name, hs)
		var z *Term
		if lf.sort == BoolS {
			z = ConstArray(RowB, False)
		} else {
			z = ConstArray(RowI, Zero)
		}
		e.setHeap(st, name, Store(h, obj, z))
	}
}

// ---------- obligations ----------

func (e *Engine) oblige(st *State, kind, label string, ord int, goal *Term, clause string, pos token.Pos) {
	if goal.IsTrue() || st.dead {
		return
	}
	name := e.curFn + "/" + kind
	if label != "" {
		name += ":" + label
	}
	if ord >= 0 {
		name += fmt.Sprintf("#%d", ord)
	}
	fr := st.frames[0]
	var tr []string
	for _, b := range st.top().trace {
		tr = append(tr, fmt.Sprint(b))
	}
	ob := &Obligation{Name: name, Func: e.curFn, Kind: kind, Clause: clause,
		Premises: append([]*Term(nil), st.facts...), Goal: goal, Path: strings.Join(tr, ">"), entry: e.curEntry, DefFact: st.defFact}
	_ = fr
	if pos.IsValid() {
		ob.Pos = e.Fset.Position(pos)
	}
	e.obs = append(e.obs, ob)
	// after checking, the goal may be assumed on the continuing path
	st.assume(goal)
}

func (e *Engine) ordinal(in ssa.Instruction) int {
	if o, ok := e.ordinals[in]; ok {
		return o
	}
	fn := in.Parent()
	counts := map[string]int{}
	for _, b := range fn.Blocks {
		for _, i := range b.Instrs {
			k := fmt.Sprintf("%T", i)
			e.ordinals[i] = counts[k]
			counts[k]++
		}
	}
	return e.ordinals[in]
}

// ---------- per-function static info (loops, cells) ----------

type loopInfo struct {
	head    *ssa.BasicBlock
	ord     int
	blocks  map[*ssa.BasicBlock]bool
	stored  []*ssa.Alloc    // local cells assigned in the loop
	heapsW  map[string]bool // heap name prefixes possibly written in the loop ("H$byte", "P$Message")
	hasCall bool
	pos     token.Pos
}

type fnInfo struct {
	loops   map[*ssa.BasicBlock]*loopInfo
	byOrd   []*loopInfo
	heapAlloc map[*ssa.Alloc]bool // allocs that must live in the pointee heap (address escapes)
}

func (e *Engine) info(fn *ssa.Function) *fnInfo {
	if fi, ok := e.infos[fn]; ok {
		return fi
	}
	fi := &fnInfo{loops: map[*ssa.BasicBlock]*loopInfo{}, heapAlloc: map[*ssa.Alloc]bool{}}
	e.infos[fn] = fi
	if len(fn.Blocks) == 0 {
		return fi
	}
	// natural loops: back edge p -> h where h dominates p
	for _, b := range fn.Blocks {
		for _, s := range b.Succs {
			if s.Dominates(b) {
				li := fi.loops[s]
				if li == nil {
					li = &loopInfo{head: s, blocks: map[*ssa.BasicBlock]bool{s: true}, heapsW: map[string]bool{}}
					fi.loops[s] = li
				}
				// collect body: all blocks that can reach b without passing through s
				var stack []*ssa.BasicBlock
				if !li.blocks[b] {
					li.blocks[b] = true
					stack = append(stack, b)
				}
				for len(stack) > 0 {
					x := stack[len(stack)-1]
					stack = stack[:len(stack)-1]
					for _, p := range x.Preds {
						if !li.blocks[p] {
							li.blocks[p] = true
							stack = append(stack, p)
						}
					}
				}
			}
		}
	}
	var heads []*ssa.BasicBlock
	for h := range fi.loops {
		heads = append(heads, h)
	}
	// source pre-order: by position of the first instruction with a position, fall back to block index
	sort.Slice(heads, func(i, j int) bool { return heads[i].Index < heads[j].Index })
	posOf := func(li *loopInfo) token.Pos {
		best := token.NoPos
		for b := range li.blocks {
			for _, in := range b.Instrs {
				if p := in.Pos(); p.IsValid() && (best == token.NoPos || p < best) {
					best = p
				}
			}
		}
		return best
	}
	for _, h := range heads {
		fi.loops[h].pos = posOf(fi.loops[h])
	}
	sort.SliceStable(heads, func(i, j int) bool { return fi.loops[heads[i]].pos < fi.loops[heads[j]].pos })
	for i, h := range heads {
		li := fi.loops[h]
		li.ord = i
		fi.byOrd = append(fi.byOrd, li)
		seen := map[*ssa.Alloc]bool{}
		for b := range li.blocks {
			for _, in := range b.Instrs {
				switch x := in.(type) {
				case *ssa.Store:
					if a := rootAlloc(x.Addr); a != nil {
						if !seen[a] {
							seen[a] = true
							li.stored = append(li.stored, a)
						}
					} else {
						li.heapsW["*"] = true
					}
				case *ssa.Call:
					li.hasCall = true
				case *ssa.MapUpdate:
					li.heapsW["*"] = true
				}
			}
		}
		sort.Slice(li.stored, func(a, b int) bool { return li.stored[a].Pos() < li.stored[b].Pos() })
	}
	// escape analysis for allocs
	for _, b := range fn.Blocks {
		for _, in := range b.Instrs {
			if a, ok := in.(*ssa.Alloc); ok {
				if _, isArr := under(a.Type().(*types.Pointer).Elem()).(*types.Array); isArr {
					continue // arrays always live in element heaps
				}
				if addrEscapes(a, map[ssa.Value]bool{}) {
					fi.heapAlloc[a] = true
				}
			}
		}
	}
	return fi
}

func rootAlloc(v ssa.Value) *ssa.Alloc {
	for {
		switch x := v.(type) {
		case *ssa.Alloc:
			return x
		case *ssa.FieldAddr:
			v = x.X
		case *ssa.IndexAddr:
			if _, ok := under(x.X.Type()).(*types.Pointer); ok {
				v = x.X
			} else {
				return nil
			}
		default:
			return nil
		}
	}
}

// addrEscapes reports whether the address held in v flows anywhere other than
// loads, stores-to, field/index address computations and closure bindings.
func addrEscapes(v ssa.Value, seen map[ssa.Value]bool) bool {
	if seen[v] {
		return false
	}
	seen[v] = true
	refs := v.Referrers()
	if refs == nil {
		return true
	}
	for _, r := range *refs {
		switch x := r.(type) {
		case *ssa.UnOp:
			if x.Op != token.MUL {
				return true
			}
		case *ssa.Store:
			if x.Val == v {
				return true
			}
		case *ssa.FieldAddr:
			if addrEscapes(x, seen) {
				return true
			}
		case *ssa.IndexAddr:
			if addrEscapes(x, seen) {
				return true
			}
		case *ssa.MakeClosure:
			// bound by reference to an in-place closure: stays a cell
		case *ssa.DebugRef:
		case *ssa.Slice:
			return true
		default:
			return true
		}
	}
	return false
}
