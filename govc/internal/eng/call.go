package eng

import (
	"sort"
	"fmt"
	"go/types"
	"strings"

	"golang.org/x/tools/go/ssa"
)

// ---------- maps ----------

func mapHeapNames(k, v types.Type) (present string, vals []string) {
	base := "M$" + typeName(k) + "$" + typeName(v)
	present = base + ".present"
	for _, l := range leavesOf(v) {
		vals = append(vals, base+".val"+l.path)
	}
	return
}

// String keys: the identity of a string key is an uninterpreted function of the string value; the text of
// the key with identity k is (mapkey$obj(k), 0, mapkey$len(k)). keyFacts ties the two together for every
// string used as a key (equal identity => equal text). The converse (equal text => equal identity) is not
// axiomatised: the model then allows two equal strings to name different slots, which only adds
// behaviours (sound for proofs, and lookups by strings obtained from the map itself are exact).
func strKeyId(s VString) *Term { return App("mapkey$sid", IntS, s.Obj, s.Off, s.Len) }

func (e *Engine) keyFacts(st *State, k Val) {
	s, ok := k.(VString)
	if !ok {
		return
	}
	id := strKeyId(s)
	h := e.heap(st, strHeap, HeapI)
	i := e.fresh("i", IntS)
	st.assume(Eq(App("mapkey$len", IntS, id), s.Len),
		Forall([]*Term{i}, nil, Implies(And(Le(Zero, i), Lt(i, s.Len)),
			Eq(Select(Select(h, App("mapkey$obj", IntS, id)), i), Select(Select(h, s.Obj), Add(s.Off, i))))))
}

func keyTerm(k Val) *Term {
	if s, ok := k.(VString); ok {
		return strKeyId(s)
	}
	fl := Flatten(k)
	if len(fl) != 1 || fl[0].S != IntS {
		panic(unsupported("map key that is not a single integer-like scalar"))
	}
	return fl[0]
}

// mapGet returns (value, present) for a lookup.
func (e *Engine) mapGet(st *State, m VMap, key Val) (Val, *Term) {
	if m.Conc != nil {
		res := ZeroVal(m.V)
		pres := False
		for i := len(m.Conc.Keys) - 1; i >= 0; i-- {
			c := e.valEq(st, m.Conc.Keys[i], key, m.K)
			res = iteVal(c, m.Conc.Vals[i], res)
			pres = Ite(c, True, pres)
		}
		return res, pres
	}
	e.keyFacts(st, key)
	kt := keyTerm(key)
	pn, vns := mapHeapNames(m.K, m.V)
	ph := e.heap(st, pn, HeapB)
	pres := Select(Select(ph, m.Ref), kt)
	ls := leavesOf(m.V)
	ts := make([]*Term, len(ls))
	for i, l := range ls {
		h := e.heap(st, vns[i], heapSort(l.sort, true))
		ts[i] = Select(Select(h, m.Ref), kt)
	}
	v, _ := Unflatten(m.V, ts)
	st.assume(typeInvariant(m.V, v, st.alloc)...)
	// absent keys read as zero
	zv := ZeroVal(m.V)
	return iteVal(pres, v, zv), pres
}

func iteVal(c *Term, a, b Val) Val {
	if c.IsTrue() {
		return a
	}
	if c.IsFalse() {
		return b
	}
	fa, fb := Flatten(a), Flatten(b)
	out := make([]*Term, len(fa))
	for i := range fa {
		out[i] = Ite(c, fa[i], fb[i])
	}
	return rebuildLike(a, out)
}

// rebuildLike builds a value with the shape of proto from flat terms.
func rebuildLike(proto Val, ts []*Term) Val {
	v, _ := rebuild(proto, ts)
	return v
}

func rebuild(proto Val, ts []*Term) (Val, []*Term) {
	switch p := proto.(type) {
	case VInt:
		return VInt{ts[0]}, ts[1:]
	case VBool:
		return VBool{ts[0]}, ts[1:]
	case VSlice:
		return VSlice{ts[0], ts[1], ts[2], ts[3], p.Elem}, ts[4:]
	case VString:
		return VString{ts[0], ts[1], ts[2]}, ts[3:]
	case VStruct:
		n := VStruct{T: p.T}
		for _, f := range p.F {
			var x Val
			x, ts = rebuild(f, ts)
			n.F = append(n.F, x)
		}
		return n, ts
	case VPtr:
		return VPtr{L: &Loc{Kind: LHeap, Ref: ts[0], Base: p.Elem}, Elem: p.Elem}, ts[1:]
	case VErr:
		return VErr{ts[0]}, ts[1:]
	case VIface:
		return VIface{ts[0], ts[1], p.T}, ts[2:]
	case VFunc:
		return VFunc{Id: ts[0], Sig: p.Sig}, ts[1:]
	case VMap:
		return VMap{Ref: ts[0], K: p.K, V: p.V}, ts[1:]
	case VChan:
		return VChan{ts[0]}, ts[1:]
	case VTime:
		return VTime{ts[0]}, ts[1:]
	case VOpaque:
		return VOpaque{ts[0], p.T}, ts[1:]
	case VTuple:
		n := VTuple{}
		for _, f := range p.E {
			var x Val
			x, ts = rebuild(f, ts)
			n.E = append(n.E, x)
		}
		return n, ts
	}
	panic(fmt.Sprintf("rebuild %T", proto))
}

func (e *Engine) execLookup(st *State, fr *Frame, x *ssa.Lookup) Val {
	base := e.val(st, fr, x.X)
	switch b := base.(type) {
	case VMap:
		e.lockCheckMap(st, fr, x.X, false, x)
		v, pres := e.mapGet(st, b, e.val(st, fr, x.Index))
		if x.CommaOk {
			return VTuple{[]Val{v, VBool{pres}}}
		}
		return v
	case VString:
		idx := e.val(st, fr, x.Index).(VInt).T
		e.oblige(st, "bounds@Lookup", "", e.ordinal(x), And(Le(Zero, idx), Lt(idx, b.Len)), "index within string length", x.Pos())
		h := e.heap(st, strHeap, HeapI)
		c := Select(Select(h, b.Obj), Add(b.Off, idx))
		st.assume(Le(Zero, c), Le(c, Num(255)))
		return VInt{c}
	}
	panic(unsupported(fmt.Sprintf("Lookup on %T", base)))
}

func (e *Engine) execMakeMap(st *State, fr *Frame, x *ssa.MakeMap) Val {
	mt := under(x.Type()).(*types.Map)
	ref := e.newObject(st)
	pn, _ := mapHeapNames(mt.Key(), mt.Elem())
	ph := e.heap(st, pn, HeapB)
	e.setHeap(st, pn, Store(ph, ref, ConstArray(RowB, False)))
	return VMap{Ref: ref, K: mt.Key(), V: mt.Elem()}
}

func (e *Engine) mapSet(st *State, m VMap, key, val Val) {
	if m.Conc != nil {
		panic(unsupported("update of a constant table"))
	}
	e.keyFacts(st, key)
	kt := keyTerm(key)
	pn, vns := mapHeapNames(m.K, m.V)
	ph := e.heap(st, pn, HeapB)
	e.setHeap(st, pn, Store(ph, m.Ref, Store(Select(ph, m.Ref), kt, True)))
	fl := Flatten(val)
	for i, l := range leavesOf(m.V) {
		h := e.heap(st, vns[i], heapSort(l.sort, true))
		e.setHeap(st, vns[i], Store(h, m.Ref, Store(Select(h, m.Ref), kt, fl[i])))
	}
}

func (e *Engine) mapDelete(st *State, m VMap, key Val) {
	e.keyFacts(st, key)
	kt := keyTerm(key)
	pn, _ := mapHeapNames(m.K, m.V)
	ph := e.heap(st, pn, HeapB)
	e.setHeap(st, pn, Store(ph, m.Ref, Store(Select(ph, m.Ref), kt, False)))
}

func (e *Engine) execMapUpdate(st *State, fr *Frame, x *ssa.MapUpdate) {
	m := e.val(st, fr, x.Map).(VMap)
	e.oblige(st, "nil@mapwrite", "", e.ordinal(x), Ne(m.Ref, Zero), "write to non-nil map", x.Pos())
	e.lockCheckMap(st, fr, x.Map, true, x)
	e.mapSet(st, m, e.val(st, fr, x.Key), e.val(st, fr, x.Value))
}

// ---------- range / next (map iteration) ----------

type VRange struct {
	M    VMap
	Heap string // pseudo-heap (Array Int Bool) holding the keys already yielded
}

func (e *Engine) execRange(st *State, fr *Frame, x *ssa.Range) Val {
	switch b := e.val(st, fr, x.X).(type) {
	case VMap:
		e.lockCheckMap(st, fr, x.X, false, x)
		name := fmt.Sprintf("RV$%s$%d", fr.fn.Name(), e.ordinal(x))
		e.setHeap(st, name, ConstArray(RowB, False))
		e.Assumptions["map iteration in "+fr.fn.String()+": every key present is yielded exactly once, in any order; the map is not inserted into while it is ranged over"] = true
		return &VRange{M: b, Heap: name}
	}
	panic(unsupported("range over non-map"))
}

// mapKeyVal turns the integer identity of a map key into a value of the key type. String keys are
// opaque: their text is a function of the identity (only iteration is supported for such maps).
func mapKeyVal(st *State, kt types.Type, k *Term) Val {
	if b, ok := kt.Underlying().(*types.Basic); ok && b.Info()&types.IsString != 0 {
		ln := App("mapkey$len", IntS, k)
		st.assume(Ge(ln, Zero), Le(ln, Pow2(40)))
		ks := VString{App("mapkey$obj", IntS, k), Zero, ln}
		st.assume(Eq(strKeyId(ks), k)) // the key with identity k is named by its own text
		return ks
	}
	v, _ := Unflatten(kt, []*Term{k})
	return v
}

// execNext: one step of a map iteration. ok is symbolic; the following `if ok` splits the paths.
func (e *Engine) execNext(st *State, fr *Frame, x *ssa.Next) ([]*State, bool) {
	r, isMap := e.val(st, fr, x.Iter).(*VRange)
	if !isMap {
		panic(unsupported("iteration over a string"))
	}
	m := r.M
	vis := e.heap(st, r.Heap, RowB)
	k := e.fresh("key", IntS)
	more := e.fresh("more", BoolS)
	pn, _ := mapHeapNames(m.K, m.V)
	ph := e.heap(st, pn, HeapB)
	pres := Select(Select(ph, m.Ref), k)
	q := Var("q_key", IntS)
	allSeen := Forall([]*Term{q}, [][]*Term{{Select(Select(ph, m.Ref), q)}}, Implies(Select(Select(ph, m.Ref), q), Select(vis, q)))
	st.assume(Implies(more, And(pres, Not(Select(vis, k)))), Implies(Not(more), allSeen))
	kv := mapKeyVal(st, m.K, k)
	st.assume(typeInvariant(m.K, kv, st.alloc)...)
	val, _ := e.mapGet(st, m, VInt{k})
	e.setHeap(st, r.Heap, Ite(more, Store(vis, k, True), vis))
	fr.regs[x] = VTuple{[]Val{VBool{more}, kv, val}}
	return nil, false
}

// ---------- calls ----------

func (e *Engine) specFor(fn *ssa.Function) *FuncSpec {
	orig := fn
	if o := fn.Origin(); o != nil {
		orig = o
	}
	key := funcKey(orig)
	if orig.Pkg != nil {
		if ps := e.Specs[orig.Pkg]; ps != nil {
			if fs := ps.Funcs[key]; fs != nil {
				return fs
			}
		}
	}
	if e.Std != nil {
		full := orig.String()
		if fs := e.Std.Funcs[full]; fs != nil {
			return fs
		}
		if orig.Pkg != nil {
			if fs := e.Std.Funcs[orig.Pkg.Pkg.Path()+"."+key]; fs != nil {
				return fs
			}
		}
	}
	return nil
}

// funcKey gives the contract key: Name, (T).Name or (*T).Name
func funcKey(fn *ssa.Function) string {
	if fn.Parent() != nil {
		// anonymous function: Parent$N
		pk := funcKey(fn.Parent())
		if i := strings.LastIndex(fn.Name(), "$"); i >= 0 {
			return pk + fn.Name()[i:]
		}
	}
	if fn.Signature.Recv() != nil {
		rt := fn.Signature.Recv().Type()
		ptr := ""
		if p, ok := rt.(*types.Pointer); ok {
			ptr = "*"
			rt = p.Elem()
		}
		name := rt.String()
		if n, ok := rt.(*types.Named); ok {
			name = n.Obj().Name()
		}
		return "(" + ptr + name + ")." + fn.Name()
	}
	return fn.Name()
}

func (e *Engine) execCall(st *State, fr *Frame, x *ssa.Call, onReturn func(*State, []Val)) ([]*State, bool) {
	c := x.Common()
	var args []Val
	for _, a := range c.Args {
		args = append(args, e.val(st, fr, a))
	}
	if b, ok := c.Value.(*ssa.Builtin); ok {
		forks, r := e.builtin(st, fr, x, b, args)
		fr.regs[x] = r
		return forks, false
	}
	if c.IsInvoke() {
		recv := e.val(st, fr, c.Value)
		res := e.invoke(st, fr, x, recv, c.Method, args)
		fr.regs[x] = res
		return nil, false
	}
	var callee *ssa.Function
	var bind []Val
	switch fv := e.val(st, fr, c.Value).(type) {
	case VFunc:
		callee, bind = fv.Fn, fv.Bind
		if callee == nil {
			// opaque function value: parameter contract
			res := e.callOpaque(st, fr, x, c.Value, fv, args)
			fr.regs[x] = res
			return nil, false
		}
	default:
		panic(unsupported(fmt.Sprintf("call through %T", fv)))
	}
	return e.callFunction(st, fr, x, callee, bind, args, nil)
}

// callFunction dispatches a static call: intrinsic, contract, or inline.
func (e *Engine) callFunction(st *State, fr *Frame, x *ssa.Call, callee *ssa.Function, bind []Val, args []Val, hook func(*State, []Val)) ([]*State, bool) {
	setRes := func(res []Val) {
		if hook != nil {
			hook(st, res)
			return
		}
		if x == nil {
			return
		}
		switch len(res) {
		case 0:
			fr.regs[x] = VTuple{}
		case 1:
			fr.regs[x] = res[0]
		default:
			fr.regs[x] = VTuple{res}
		}
	}
	if res, ok := e.intrinsic(st, fr, x, callee, args); ok {
		setRes(res)
		return nil, false
	}
	spec := e.specFor(callee)
	inline := callee.Parent() != nil // closures called directly are executed in place (their own contract, if any, is for the standalone proof)
	if inline {
		spec = nil
	}
	if spec != nil && spec.Inline {
		inline = true
	}
	if root := st.frames[0]; spec != nil && root.spec != nil {
		for _, ic := range root.spec.InlineCalls {
			if ic == callee.Name() || ic == funcKey(callee) {
				inline = true
			}
		}
	}
	if spec != nil && !inline {
		res := e.applyContract(st, fr, x, callee, spec, args)
		setRes(res)
		return nil, false
	}
	if !inline {
		pkgPath := ""
		switch {
		case callee.Pkg != nil:
			pkgPath = callee.Pkg.Pkg.Path()
		case callee.Origin() != nil && callee.Origin().Pkg != nil: // instantiation of a generic function
			pkgPath = callee.Origin().Pkg.Pkg.Path()
		case callee.Object() != nil && callee.Object().Pkg() != nil:
			pkgPath = callee.Object().Pkg().Path()
		}
		inModule := pkgPath == ModPath || strings.HasPrefix(pkgPath, ModPath+"/")
		if pkgPath == "" {
			panic(unsupported("call to " + callee.String() + " (no package information, no contract)"))
		}
		switch {
		case inModule && len(callee.Blocks) > 0 && len(e.info(callee).byOrd) == 0 && len(st.frames) < 5 && !e.onStack(st, callee):
			// a helper of the repository without a contract and without loops is executed in place
			// (so that extracting a helper function keeps a proof, and a changed helper is seen)
			inline = true
		case !inModule:
			// a function of another module without a contract: its result is arbitrary and it is taken
			// not to touch the state the contracts talk about. Nothing on the unchanged tree depends on
			// this (the evidence lists it when it does); on changed code it lets the clauses that depend
			// on the result fail instead of leaving the function undecided.
			e.Assumptions["call to "+callee.String()+" (no contract, other module): arbitrary result, no effect on modelled state"] = true
			var res []Val
			rs := callee.Signature.Results()
			for i := 0; i < rs.Len(); i++ {
				res = append(res, e.freshVal(st, rs.At(i).Type(), "ext_"+callee.Name()))
			}
			st.calls = append(st.calls, callRec{target: callee.Name(), args: args, res: res, seq: len(st.calls)})
			setRes(res)
			return nil, false
		default:
			panic(unsupported("call to " + callee.String() + " which has no contract"))
		}
	}
	if len(callee.Blocks) == 0 {
		panic(unsupported("inline call to " + callee.String() + " without body"))
	}
	if len(st.frames) > 12 {
		panic(unsupported("inline depth exceeded at " + callee.String()))
	}
	nf := &Frame{fn: callee, spec: spec, regs: map[ssa.Value]Val{}, cells: map[*ssa.Alloc]*Cell{}, params: args,
		freeVars: bind, caller: x, loops: map[*ssa.BasicBlock]*loopCtx{}, info: e.info(callee), retHook: hook}
	st.frames = append(st.frames, nf)
	if e.enterBlock(st, nf, callee.Blocks[0]) {
		return nil, true
	}
	return nil, false
}

func (e *Engine) runDefers(st *State, fr *Frame, onReturn func(*State, []Val)) ([]*State, bool) {
	if len(fr.defers) == 0 {
		return nil, false
	}
	d := fr.defers[len(fr.defers)-1]
	fr.defers = fr.defers[:len(fr.defers)-1]
	// re-execute the RunDefers instruction after this deferred call completes
	fr.idx--
	hook := func(s *State, res []Val) {}
	if d.call.IsInvoke() {
		e.invoke(st, fr, nil, d.fn, d.call.Method, d.args)
		return nil, false
	}
	if _, ok := d.call.Value.(*ssa.Builtin); ok {
		panic(unsupported("deferred builtin"))
	}
	fv := d.fn.(VFunc)
	if fv.Fn == nil {
		e.callOpaque(st, fr, nil, d.call.Value, fv, d.args)
		return nil, false
	}
	return e.callFunction(st, fr, nil, fv.Fn, fv.Bind, d.args, hook)
}

// ---------- builtins ----------

func (e *Engine) builtin(st *State, fr *Frame, x *ssa.Call, b *ssa.Builtin, args []Val) ([]*State, Val) {
	switch b.Name() {
	case "len":
		switch a := args[0].(type) {
		case VSlice:
			return nil, VInt{a.Len}
		case VString:
			return nil, VInt{a.Len}
		case VMap:
			return nil, VInt{e.mapLen(st, a)}
		}
	case "cap":
		if a, ok := args[0].(VSlice); ok {
			return nil, VInt{a.Cap}
		}
	case "close":
		ch := args[0].(VChan)
		e.chanAssumption(fr)
		h := e.heap(st, chanHeap, RowB)
		e.oblige(st, "nil@close", "", e.ordinal(x), Ne(ch.Id, Zero), "close of a nil channel panics", x.Pos())
		e.oblige(st, "chan@close", "", e.ordinal(x), Not(Select(h, ch.Id)), "close of an already closed channel panics", x.Pos())
		e.setHeap(st, chanHeap, Store(h, ch.Id, True))
		st.calls = append(st.calls, callRec{target: "close", args: []Val{ch}, seq: len(st.calls)})
		return nil, VTuple{}
	case "copy":
		dst := args[0].(VSlice)
		n := e.copyInto(st, fr, x, dst, args[1])
		return nil, VInt{n}
	case "append":
		return e.appendBuiltin(st, fr, x, args)
	case "min", "max":
		r := args[0].(VInt).T
		for _, a := range args[1:] {
			if b.Name() == "min" {
				r = Min(r, a.(VInt).T)
			} else {
				r = Max(r, a.(VInt).T)
			}
		}
		return nil, VInt{r}
	case "delete":
		m := args[0].(VMap)
		e.lockCheckMap(st, fr, x.Call.Args[0], true, x)
		e.mapDelete(st, m, args[1])
		return nil, VTuple{}
	case "clear":
		// clear(m): no key is present afterwards (the map object stays the same)
		if m, ok := args[0].(VMap); ok && m.Conc == nil {
			e.lockCheckMap(st, fr, x.Call.Args[0], true, x)
			pn, _ := mapHeapNames(m.K, m.V)
			ph := e.heap(st, pn, HeapB)
			e.setHeap(st, pn, Store(ph, m.Ref, ConstArray(RowB, False)))
			st.assume(Eq(App("maplen", IntS, ConstArray(RowB, False)), Zero))
			return nil, VTuple{}
		}
	case "ssa:wrapnilchk":
		return nil, args[0]
	case "ssa:deferstack":
		return nil, VOpaque{Id: Zero, T: x.Type()}
	}
	panic(unsupported("builtin " + b.Name()))
}

func (e *Engine) mapLen(st *State, m VMap) *Term {
	if m.Conc != nil {
		return Num(int64(len(m.Conc.Keys)))
	}
	pn, _ := mapHeapNames(m.K, m.V)
	ph := e.heap(st, pn, HeapB)
	row := Select(ph, m.Ref)
	n := App("maplen", IntS, row)
	st.assume(Ge(n, Zero))
	// a map of length 0 has no key
	k := e.fresh("k", IntS)
	st.assume(Forall([]*Term{k}, [][]*Term{{Select(row, k)}}, Implies(Eq(n, Zero), Not(Select(row, k)))))
	return n
}

// srcReader abstracts reading element i (relative) of a copy source.
type srcReader func(leafIdx int, i *Term) *Term

// writeRange writes n elements into (obj, start..start+n) of the element heaps of elem.
func (e *Engine) writeRange(st *State, elem types.Type, obj, start, n *Term, read srcReader) {
	ls := leavesOf(elem)
	type upd struct {
		name string
		val  *Term
	}
	var upds []upd
	for li, lf := range ls {
		name := elemHeapName(elem, lf.path)
		h := e.heap(st, name, heapSort(lf.sort, true))
		oldRow := Select(h, obj)
		if n.IsConst() && n.N.IsInt64() && n.N.Int64() <= 32 {
			row := oldRow
			for k := int64(0); k < n.N.Int64(); k++ {
				row = Store(row, Add(start, Num(k)), read(li, Num(k)))
			}
			upds = append(upds, upd{name, Store(h, obj, row)})
			continue
		}
		row := e.fresh("row", ArrS(IntS, lf.sort))
		i := e.fresh("i", IntS)
		in := And(Le(start, i), Lt(i, Add(start, n)))
		st.assume(Forall([]*Term{i}, [][]*Term{{Select(row, i)}},
			And(Implies(in, Eq(Select(row, i), read(li, Sub(i, start)))),
				Implies(Not(in), Eq(Select(row, i), Select(oldRow, i))))))
		upds = append(upds, upd{name, Store(h, obj, row)})
	}
	for _, u := range upds {
		e.setHeap(st, u.name, u.val)
	}
}

func (e *Engine) readerOf(st *State, src Val) (srcReader, *Term, types.Type) {
	switch s := src.(type) {
	case VSlice:
		ls := leavesOf(s.Elem)
		hs := make([]*Term, len(ls))
		for i, lf := range ls {
			hs[i] = e.heap(st, elemHeapName(s.Elem, lf.path), heapSort(lf.sort, true))
		}
		return func(li int, i *Term) *Term { return Select(Select(hs[li], s.Obj), Add(s.Off, i)) }, s.Len, s.Elem
	case VString:
		h := e.heap(st, strHeap, HeapI)
		return func(li int, i *Term) *Term { return Select(Select(h, s.Obj), Add(s.Off, i)) }, s.Len, nil
	}
	panic(unsupported(fmt.Sprintf("copy/append source %T", src)))
}

func (e *Engine) copyInto(st *State, fr *Frame, x *ssa.Call, dst VSlice, src Val) *Term {
	read, slen, _ := e.readerOf(st, src)
	n := Min(dst.Len, slen)
	if !n.IsConst() {
		nn := e.fresh("ncopy", IntS)
		st.assume(Eq(nn, n))
		n = nn
	}
	e.frameCheckRegion(st, fr, dst.Elem, dst.Obj, dst.Off, Add(dst.Off, n), x)
	e.writeRange(st, dst.Elem, dst.Obj, dst.Off, n, read)
	return n
}

func (e *Engine) appendBuiltin(st *State, fr *Frame, x *ssa.Call, args []Val) ([]*State, Val) {
	a := args[0].(VSlice)
	read, n, _ := e.readerOf(st, args[1])
	newLen := Add(a.Len, n)
	fits := Le(newLen, a.Cap)
	doFit := func(s *State) Val {
		f := s.top()
		e.frameCheckRegion(s, f, a.Elem, a.Obj, Add(a.Off, a.Len), Add(a.Off, newLen), x)
		e.writeRange(s, a.Elem, a.Obj, Add(a.Off, a.Len), n, read)
		return VSlice{a.Obj, a.Off, newLen, a.Cap, a.Elem}
	}
	doGrow := func(s *State) Val {
		obj := e.newObject(s)
		ncap := e.fresh("cap", IntS)
		s.assume(Ge(ncap, newLen), Le(ncap, Pow2(48)))
		// contents: old prefix then the appended elements; remainder zero
		e.zeroObject(s, a.Elem, obj)
		ls := leavesOf(a.Elem)
		hs := make([]*Term, len(ls))
		for i, lf := range ls {
			hs[i] = e.heap(s, elemHeapName(a.Elem, lf.path), heapSort(lf.sort, true))
		}
		e.writeRange(s, a.Elem, obj, Zero, a.Len, func(li int, i *Term) *Term { return Select(Select(hs[li], a.Obj), Add(a.Off, i)) })
		read2, _, _ := e.readerOf(s, args[1])
		e.writeRange(s, a.Elem, obj, a.Len, n, read2)
		return VSlice{obj, Zero, newLen, ncap, a.Elem}
	}
	if fits.IsTrue() {
		return nil, doFit(st)
	}
	if fits.IsFalse() {
		return nil, doGrow(st)
	}
	other := st.clone()
	other.assume(Not(fits))
	ofr := other.top()
	ofr.regs[x] = doGrow(other)
	st.assume(fits)
	r := doFit(st)
	if other.dead {
		return nil, r
	}
	return []*State{other}, r
}

// ---------- interface method calls and opaque function values ----------

func (e *Engine) invoke(st *State, fr *Frame, x *ssa.Call, recv Val, m *types.Func, args []Val) Val {
	// interface contracts are looked up as "(pkg.Iface).Method" in the std specs or package specs
	it := m.Type().(*types.Signature).Recv().Type()
	name := it.String()
	key := "(" + name + ")." + m.Name()
	if iv, ok := recv.(VIface); ok && (key == "(context.Context).Done" || key == "(context.Context).Err") {
		// context.Context: Done() is one channel per context value, closed on cancellation; Err() is non-nil once it is closed
		e.Assumptions["context.Context: Done() returns the same channel on every call, it is only ever closed, and Err() is non-nil once it is closed (package documentation)"] = true
		done := App("ctx$done", IntS, iv.Tag, iv.Data)
		var res []Val
		if m.Name() == "Done" {
			res = []Val{VChan{Id: done}}
		} else {
			e.chanInterference(st)
			er := e.fresh("ctxerr", IntS)
			st.assume(Ge(er, Zero))
			st.assume(Implies(Select(e.heap(st, chanHeap, RowB), done), Ne(er, Zero)))
			res = []Val{VErr{er}}
		}
		st.calls = append(st.calls, callRec{target: m.Name(), args: append([]Val{recv}, args...), res: res, seq: len(st.calls)})
		return tupleOf(res)
	}
	var spec *FuncSpec
	if e.Std != nil {
		spec = e.Std.Funcs[key]
	}
	if spec == nil {
		for _, ps := range e.Specs {
			if n, ok := it.(*types.Named); ok && n.Obj().Pkg() != nil && ps.Path == n.Obj().Pkg().Path() {
				spec = ps.Funcs["("+n.Obj().Name()+")."+m.Name()]
			}
		}
	}
	if spec == nil {
		panic(unsupported("interface method call " + key + " without contract"))
	}
	sig := m.Type().(*types.Signature)
	all := append([]Val{recv}, args...)
	names := []string{"recv"}
	for i := 0; i < sig.Params().Len(); i++ {
		names = append(names, sig.Params().At(i).Name())
	}
	res := e.applyContractSig(st, fr, x, key, spec, sig, names, all)
	st.calls = append(st.calls, callRec{target: m.Name(), args: all, res: res, seq: len(st.calls)})
	return tupleOf(res)
}

func tupleOf(res []Val) Val {
	switch len(res) {
	case 0:
		return VTuple{}
	case 1:
		return res[0]
	}
	return VTuple{res}
}

func (e *Engine) callOpaque(st *State, fr *Frame, x *ssa.Call, fv ssa.Value, f VFunc, args []Val) Val {
	// find the parameter name this value came from
	name := ""
	root := st.frames[0]
	for i, p := range root.fn.Params {
		if pv, ok := root.params[i].(VFunc); ok && pv.Id != nil && f.Id != nil && same(pv.Id, f.Id) {
			name = p.Name()
		}
	}
	if name == "" {
		if root.spec != nil && root.spec.OpaquePure {
			e.Assumptions["function values called in "+root.fn.String()+" that are not parameters (callbacks stored in fields) are assumed not to modify the state the contract talks about"] = true
			var res []Val
			if f.Sig != nil {
				for i := 0; i < f.Sig.Results().Len(); i++ {
					res = append(res, e.freshVal(st, f.Sig.Results().At(i).Type(), "opaque"))
				}
			}
			tname := "opaque"
			if u, ok := fv.(*ssa.UnOp); ok { // callback loaded from a field / captured variable: logged under its name
				if fa, ok := u.X.(*ssa.FieldAddr); ok {
					if stt, ok := under(deref(fa.X.Type())).(*types.Struct); ok {
						tname = stt.Field(fa.Field).Name()
					}
				}
				if fvv, ok := u.X.(*ssa.FreeVar); ok {
					tname = fvv.Name()
				}
			}
			if cb, ok := root.spec.Callbacks[tname]; ok {
				// assumed behaviour of a callback stored in a field: a condition over its results r0, r1, ...
				env := map[string]Val{}
				for i, r := range res {
					env[fmt.Sprintf("r%d", i)] = r
				}
				cc := &specCtx{e: e, st: st, env: env, heaps: st.heaps, oldHeaps: st.heaps, pkg: root.fn.Pkg}
				st.assume(cc.evalBool(cb.E))
				e.Assumptions["callback "+tname+" called in "+root.fn.String()+" is assumed to satisfy: "+cb.Text] = true
			}
			st.calls = append(st.calls, callRec{target: tname, args: args, res: res, seq: len(st.calls), fn: f})
			return tupleOf(res)
		}
		panic(unsupported("call of an opaque function value that is not a parameter of the function under contract"))
	}
	ps := root.spec.Params[name]
	if ps == nil {
		panic(unsupported("call of function parameter " + name + " without a 'param' contract"))
	}
	sig := f.Sig
	if x != nil && x.Pos().IsValid() && st.locks != nil {
		for k, mode := range st.locks {
			if mode != "" {
				_ = k
			}
		}
	}
	fs := &FuncSpec{Key: "param:" + name, Requires: ps.Requires, Ensures: ps.Ensures, Modifies: ps.Modifies, HasMod: true}
	for i := 0; i < sig.Results().Len(); i++ {
		fs.Results = append(fs.Results, fmt.Sprintf("r%d", i))
	}
	var names []string
	for i := 0; i < sig.Params().Len(); i++ {
		n := sig.Params().At(i).Name()
		if n == "" || n == "_" {
			n = fmt.Sprintf("a%d", i)
		}
		names = append(names, n)
	}
	res := e.applyContractSig(st, fr, x, "param:"+name, fs, sig, names, args)
	st.calls = append(st.calls, callRec{target: name, args: args, res: res, seq: len(st.calls)})
	return tupleOf(res)
}

// ---------- contract application ----------

func (e *Engine) applyContract(st *State, fr *Frame, x *ssa.Call, callee *ssa.Function, spec *FuncSpec, args []Val) []Val {
	var names []string
	for _, p := range callee.Params {
		names = append(names, p.Name())
	}
	name := callee.Name()
	if callee.Signature.Recv() != nil {
		name = funcKey(callee)
	}
	if spec.Trusted {
		e.Assumptions["assumed contract: "+callee.String()] = true
	}
	res := e.applyContractSig(st, fr, x, name, spec, callee.Signature, names, args)
	st.calls = append(st.calls, callRec{target: callee.Name(), args: args, res: res, seq: len(st.calls)})
	return res
}

func (e *Engine) applyContractSig(st *State, fr *Frame, x *ssa.Call, name string, spec *FuncSpec, sig *types.Signature, names []string, args []Val) []Val {
	env := map[string]Val{}
	if strings.HasPrefix(name, "param:") {
		// the contract of a function-valued parameter may talk about the enclosing function's parameters
		for k, v := range e.entryEnv(st.frames[0]) {
			env[k] = v
		}
	}
	for i, n := range names {
		if i < len(args) {
			env[n] = args[i]
		}
	}
	ord := -1
	pos := fr.block.Instrs[0].Pos()
	if x != nil {
		ord = e.ordinal(x)
		pos = x.Pos()
	}
	preHeaps := copyHeaps(st.heaps)
	// ghost parameters of the callee: bound by the caller's `ghost-arg callee.name = expr`, otherwise
	// the clauses that mention them are neither demanded nor assumed (they hold for every value of the
	// ghost parameter that satisfies the ghost preconditions; the other clauses do not depend on it)
	var unboundGhosts []string
	if len(spec.Ghosts) > 0 {
		root := st.frames[0]
		for _, g := range spec.Ghosts {
			var bound Expr
			if root.spec != nil {
				if ex, ok := root.spec.GhostArgs[shortName(name)+"."+g.Name]; ok {
					bound = ex
				}
			}
			if bound == nil {
				unboundGhosts = append(unboundGhosts, g.Name)
				continue
			}
			gc := &specCtx{e: e, st: st, env: e.entryEnv(root), heaps: st.heaps, oldHeaps: st.old, pkg: root.fn.Pkg, fr: fr}
			env[g.Name] = gc.eval(bound)
		}
	}
	pre := &specCtx{e: e, st: st, env: env, heaps: preHeaps, oldHeaps: preHeaps, pkg: e.pkgOfSpec(spec)}
	for i, r := range spec.Requires {
		if len(unboundGhosts) > 0 && mentions(r.E, unboundGhosts) {
			continue
		}
		lbl := r.Label
		if lbl == "" {
			lbl = fmt.Sprintf("%s.%d", name, i)
		} else {
			lbl = name + "." + lbl
		}
		pre.goal = true
		g := pre.evalBool(r.E)
		pre.goal = false
		e.oblige(st, "pre@call", lbl, ord, g, "precondition of "+name+": "+r.Text, pos)
	}
	// callee with an atomic contract: for the caller the call is one atomic step at an arbitrary
	// moment: the guarded state of the receiver is unknown before it (other goroutines) ...
	var atomicPre map[string]*Term
	var atomicRecv *VPtr
	type guardedObj struct {
		ref *Term
		g   guardInfo
	}
	var atomicObjs []guardedObj
	if len(spec.Atomic) > 0 && len(args) > 0 {
		if rp, ok := args[0].(VPtr); ok && rp.L != nil && rp.L.Kind == LHeap && len(rp.L.Path) == 0 {
			for _, g := range e.guardsFor(rp.Elem) {
				gl := g
				if n, ok := types.Unalias(rp.Elem).(*types.Named); ok {
					gl.typ = n
				}
				atomicObjs = append(atomicObjs, guardedObj{rp.L.Ref, gl})
			}
			if len(atomicObjs) == 0 {
				// the guarded structure may hang behind a pointer field of the receiver (Cache.Map *sync.Map)
				if stt, ok := rp.Elem.Underlying().(*types.Struct); ok {
					for i := 0; i < stt.NumFields(); i++ {
						pt, ok := stt.Field(i).Type().Underlying().(*types.Pointer)
						if !ok {
							continue
						}
						gs := e.guardsFor(pt.Elem())
						if len(gs) == 0 {
							continue
						}
						fl := *rp.L
						fl.Path = []pathStep{{Field: i}}
						fv, ok := e.load(st, &fl).(VPtr)
						if !ok || fv.L == nil || fv.L.Kind != LHeap {
							continue
						}
						for _, g := range gs {
							gl := g
							if n, ok := types.Unalias(pt.Elem()).(*types.Named); ok {
								gl.typ = n
							}
							atomicObjs = append(atomicObjs, guardedObj{fv.L.Ref, gl})
						}
					}
				}
			}
			if len(atomicObjs) > 0 {
				for _, o := range atomicObjs {
					e.havocGuarded(st, o.ref, o.g)
				}
				// the caller's lock invariant describes the shared structure at every instant it is unlocked
				if root := st.frames[0]; root.spec != nil {
					ic := &specCtx{e: e, st: st, env: e.entryEnv(root), heaps: st.heaps, oldHeaps: st.heaps, pkg: root.fn.Pkg}
					for _, li := range root.spec.LockInvs {
						st.assume(ic.evalBool(li.E))
					}
				}
				atomicPre = copyHeaps(st.heaps)
				rpc := rp
				atomicRecv = &rpc
			}
		}
		if atomicRecv == nil {
			panic(unsupported("call to " + name + " (atomic contract) on a receiver that is not a plain heap object"))
		}
	}
	if spec.ModAny {
		root := st.frames[0]
		if root.spec == nil || !root.spec.ModAny {
			panic(unsupported("call to " + name + " whose contract says 'modifies anything' from a function that claims a frame"))
		}
	}
	e.chanInterference(st)
	oldHeaps := copyHeaps(st.heaps)
	oldAlloc := st.alloc
	if spec.ModAny {
		// the caller claims no frame either: everything on the heap is forgotten
		e.havocAllHeaps(st)
	}
	// havoc the frame (all regions are evaluated in the pre-state first)
	var regs []region
	for _, m := range spec.Modifies {
		regs = append(regs, pre.evalRegion(m))
	}
	for _, r := range regs {
		e.havocRegionR(st, fr, r, x)
	}
	if strings.Contains(strings.Join(spec.Text, "\n"), "allocates") || true {
		// callee may allocate: the allocation frontier moves forward
		na := e.fresh("alloc", IntS)
		st.assume(Ge(na, oldAlloc))
		st.alloc = na
	}
	// results
	var res []Val
	for i := 0; i < sig.Results().Len(); i++ {
		rt := sig.Results().At(i).Type()
		hint := "r"
		if i < len(spec.Results) {
			hint = spec.Results[i]
		}
		rv := e.freshVal(st, rt, name+"."+hint)
		res = append(res, rv)
		if i < len(spec.Results) {
			env[spec.Results[i]] = rv
		}
	}
	for _, w := range spec.Witness {
		wt := e.fresh(name+".w_"+w.Name, IntS) // existential witness
		env[w.Name] = VInt{wt}
		if st.witnessOf == nil {
			st.witnessOf = map[string]*Term{}
		}
		st.witnessOf[name+"."+w.Name] = wt
		if i := strings.LastIndex(name, ")."); i >= 0 {
			st.witnessOf[name[i+2:]+"."+w.Name] = wt
		}
	}
	if atomicRecv != nil {
		// ... and related to the state after it only by the atomic clauses
		for _, o := range atomicObjs {
			e.havocGuarded(st, o.ref, o.g)
		}
		ac := &specCtx{e: e, st: st, env: env, heaps: st.heaps, oldHeaps: atomicPre, pkg: pre.pkg, iters: e.freshIters(st, name)}
		for _, a := range spec.Atomic {
			if mentions(a.E, callLogBuiltins) {
				continue // talks about the callee's own call log, which the caller cannot see
			}
			st.assume(ac.evalBool(a.E))
		}
		st.cs = append(st.cs, critSection{mode: "call", mutex: name, pre: atomicPre, post: copyHeaps(st.heaps)})
		// ... and the step must re-establish the caller's lock invariant
		if root := st.frames[0]; root.spec != nil {
			ic := &specCtx{e: e, st: st, env: e.entryEnv(root), heaps: st.heaps, oldHeaps: st.heaps, pkg: root.fn.Pkg, goal: true}
			for i, li := range root.spec.LockInvs {
				lbl := li.Label
				if lbl == "" {
					lbl = fmt.Sprint(i)
				}
				e.oblige(st, "lockinv@call", lbl+"."+shortName(name), ord, ic.evalBool(li.E), "invariant of the guarded state holds after the atomic step "+name+": "+li.Text, pos)
			}
		}
	}
	post := &specCtx{e: e, st: st, env: env, heaps: st.heaps, oldHeaps: oldHeaps, pkg: pre.pkg, oldAlloc: oldAlloc, iters: e.freshIters(st, name)}
	for _, u := range spec.Unfolds {
		post.unfold(u)
	}
	for _, en := range spec.Ensures {
		// "result == expr" for a scalar result defines the result: substitute instead of constraining a fresh symbol
		if b, ok := en.E.(*EBin); ok && b.Op == "==" && en.Except == nil {
			if id, ok := b.X.(*EIdent); ok {
				for i, rn := range spec.Results {
					if rn != id.Name || i >= len(res) {
						continue
					}
					if cur, ok := res[i].(VInt); ok && cur.T.Op == "var" && !mentions(b.Y, spec.Results) {
						if v, ok := post.tryEval(b.Y); ok {
							if vi, ok := v.(VInt); ok {
								st.assume(Eq(cur.T, vi.T))
								res[i] = vi
								env[rn] = vi
								if ii, ok := intOf(sig.Results().At(i).Type()); ok {
									st.assume(ii.inRange(vi.T))
								}
							}
						}
					}
				}
			}
		}
		if mentions(en.E, callLogBuiltins) {
			continue // talks about the callee's own call log, which the caller cannot see
		}
		if en.Label != "" && spec.Hidden[en.Label] {
			continue // "hide": proved for the callee, not handed to callers
		}
		if len(unboundGhosts) > 0 && mentions(en.E, unboundGhosts) {
			continue
		}
		if en.Except != nil {
			// clause with a known finding: callers may rely on it only outside the recorded region
			ex := (&specCtx{e: e, st: st, env: env, heaps: preHeaps, oldHeaps: preHeaps, pkg: pre.pkg}).evalBool(en.Except)
			st.assume(Implies(Not(ex), post.evalBool(en.E)))
			continue
		}
		st.assume(post.evalBool(en.E))
	}
	return res
}

func copyHeaps(h map[string]*Term) map[string]*Term {
	n := make(map[string]*Term, len(h))
	for k, v := range h {
		n[k] = v
	}
	return n
}

func (e *Engine) pkgOfSpec(spec *FuncSpec) *ssa.Package {
	for p, ps := range e.Specs {
		for _, fs := range ps.Funcs {
			if fs == spec {
				return p
			}
		}
	}
	return e.curPkg
}

// havocRegion forgets the contents of the region denoted by a modifies expression.
func (e *Engine) havocRegion(st *State, fr *Frame, ctx *specCtx, m Expr, in ssa.Instruction) {
	e.havocRegionR(st, fr, ctx.evalRegion(m), in)
}

func (e *Engine) havocRegionR(st *State, fr *Frame, r region, in ssa.Instruction) {
	switch r.kind {
	case "slice":
		if r.obj.IsConst() && r.obj.N.Sign() == 0 {
			return // nil slice: no storage
		}
		if in != nil {
			e.frameCheckRegion(st, fr, r.elem, r.obj, r.lo, r.hi, in)
		}
		for _, lf := range leavesOf(r.elem) {
			name := elemHeapName(r.elem, lf.path)
			h := e.heap(st, name, heapSort(lf.sort, true))
			row := e.fresh("row", ArrS(IntS, lf.sort))
			i := e.fresh("i", IntS)
			oldRow := Select(h, r.obj)
			st.assume(Forall([]*Term{i}, [][]*Term{{Select(row, i)}},
				Implies(Not(And(Le(r.lo, i), Lt(i, r.hi))), Eq(Select(row, i), Select(oldRow, i)))))
			if lf.sort == IntS && lf.path == "" {
				if ii, ok := intOf(r.elem); ok {
					st.assume(Forall([]*Term{i}, [][]*Term{{Select(row, i)}}, ii.inRange(Select(row, i))))
				}
			}
			e.setHeap(st, name, Store(h, r.obj, row))
		}
	case "loc":
		if in != nil {
			e.frameCheckStore(st, fr, r.loc, in)
		}
		_, t := pathInfo(r.loc.Base, r.loc.Path)
		if r.loc.Kind == LCell {
			t = r.loc.Cell.T
			_, t = pathInfo(t, r.loc.Path)
		}
		e.store(st, r.loc, e.freshVal(st, t, "hv"))
	case "map":
		pn, vns := mapHeapNames(r.m.K, r.m.V)
		ph := e.heap(st, pn, HeapB)
		e.setHeap(st, pn, Store(ph, r.m.Ref, e.fresh("prow", RowB)))
		for i, l := range leavesOf(r.m.V) {
			h := e.heap(st, vns[i], heapSort(l.sort, true))
			e.setHeap(st, vns[i], Store(h, r.m.Ref, e.fresh("vrow", ArrS(IntS, l.sort))))
		}
	default:
		panic(unsupported("modifies region kind " + r.kind))
	}
}

var callLogBuiltins = []string{"called", "notCalled", "callCount", "callArg", "callRes", "callSeq", "callFn", "callsTotal"}

func mentions(x Expr, names []string) bool {
	found := false
	var walk func(Expr)
	walk = func(e Expr) {
		switch n := e.(type) {
		case *EIdent:
			for _, nm := range names {
				if nm == n.Name {
					found = true
				}
			}
		case *EUn:
			walk(n.X)
		case *EBin:
			walk(n.X)
			walk(n.Y)
		case *ECall:
			walk(n.Fun)
			for _, a := range n.Args {
				walk(a)
			}
		case *EIndex:
			walk(n.X)
			walk(n.I)
		case *ESlice:
			walk(n.X)
			if n.Lo != nil {
				walk(n.Lo)
			}
			if n.Hi != nil {
				walk(n.Hi)
			}
		case *ESel:
			walk(n.X)
		case *EQuant:
			walk(n.Body)
		case *ELet:
			walk(n.Val)
			walk(n.Body)
		}
	}
	walk(x)
	return found
}

const chanHeap = "CH$closed"

// chanInterference: other goroutines may close channels at any time; a closed channel stays closed.
func (e *Engine) chanInterference(st *State) {
	h, ok := st.heaps[chanHeap]
	if !ok {
		return
	}
	nh := e.fresh(chanHeap, RowB)
	c := Var("q_ch", IntS)
	st.assume(Forall([]*Term{c}, [][]*Term{{Select(nh, c)}}, Implies(Select(h, c), Select(nh, c))))
	st.heaps[chanHeap] = nh
}

func shortName(name string) string {
	if i := strings.LastIndex(name, "."); i >= 0 {
		return name[i+1:]
	}
	return name
}

func (e *Engine) onStack(st *State, fn *ssa.Function) bool {
	for _, f := range st.frames {
		if f.fn == fn {
			return true
		}
	}
	return false
}

// havocAllHeaps forgets the contents of every heap (a callee that may run arbitrary code).
// Non-escaping locals live in cells and are not affected; closed channels stay closed.
func (e *Engine) havocAllHeaps(st *State) {
	e.chanInterference(st)
	var names []string
	for n := range st.heaps {
		names = append(names, n)
	}
	sort.Strings(names)
	for _, n := range names {
		if n == chanHeap || strings.HasPrefix(n, "RV$") || n == strHeap {
			continue // monotone (handled above) / ghost iteration state / immutable string contents
		}
		if e.immutableHeap(n) {
			continue // field declared immutable (assigned only during construction; checked syntactically)
		}
		st.heaps[n] = e.fresh(n, st.heaps[n].S)
	}
	na := e.fresh("alloc", IntS)
	st.assume(Ge(na, st.alloc))
	st.alloc = na
}

// immutableHeap: does the pointee heap `name` hold a field declared `immutable T.f`?
func (e *Engine) immutableHeap(name string) bool {
	if !strings.HasPrefix(name, "P$") {
		return false
	}
	rest := name[2:]
	dot := strings.Index(rest, ".")
	if dot < 0 {
		return false
	}
	base, path := rest[:dot], rest[dot+1:]
	for sp, ps := range e.Specs {
		for _, im := range ps.Immutable {
			want := sp.Pkg.Name() + "_" + im.Type
			if base != want && !strings.HasPrefix(base, want+"s_") {
				continue
			}
			if path == im.Field || strings.HasPrefix(path, im.Field+".") {
				if why := e.immutableViolated(sp, im); why != "" {
					panic(unsupported("immutable " + im.Type + "." + im.Field + ": " + why))
				}
				e.Assumptions["field "+sp.Pkg.Name()+"."+im.Type+"."+im.Field+" is assigned only while its object is constructed (checked: every store to it in the module targets a local allocation)"] = true
				return true
			}
		}
	}
	return false
}

var immutableChecked = map[string]string{}

// immutableViolated scans the module for a store to the field that does not target a local allocation.
func (e *Engine) immutableViolated(sp *ssa.Package, im ImmutableSpec) string {
	key := sp.Pkg.Path() + "." + im.Type + "." + im.Field
	if r, ok := immutableChecked[key]; ok {
		return r
	}
	res := ""
	var visit func(f *ssa.Function)
	visit = func(f *ssa.Function) {
		for _, b := range f.Blocks {
			for _, in := range b.Instrs {
				st, ok := in.(*ssa.Store)
				if !ok {
					continue
				}
				fa, ok := st.Addr.(*ssa.FieldAddr)
				if !ok {
					continue
				}
				pt, ok := fa.X.Type().Underlying().(*types.Pointer)
				if !ok {
					continue
				}
				n, ok := pt.Elem().(*types.Named)
				if !ok {
					continue
				}
				if o := n.Origin(); o != nil {
					n = o
				}
				if n.Obj().Pkg() != sp.Pkg || n.Obj().Name() != im.Type {
					continue
				}
				stt, ok := n.Underlying().(*types.Struct)
				if !ok || fa.Field >= stt.NumFields() || stt.Field(fa.Field).Name() != im.Field {
					continue
				}
				if _, isAlloc := fa.X.(*ssa.Alloc); !isAlloc {
					res = "assigned in " + f.String()
				}
			}
		}
		for _, a := range f.AnonFuncs {
			visit(a)
		}
	}
	for _, p := range e.Prog.AllPackages() {
		if !(p.Pkg.Path() == ModPath || strings.HasPrefix(p.Pkg.Path(), ModPath+"/")) {
			continue
		}
		for _, m := range p.Members {
			if f, ok := m.(*ssa.Function); ok {
				visit(f)
			}
			if tn, ok := m.(*ssa.Type); ok {
				for _, t := range []types.Type{tn.Type(), types.NewPointer(tn.Type())} {
					ms := e.Prog.MethodSets.MethodSet(t)
					for i := 0; i < ms.Len(); i++ {
						if f := e.Prog.MethodValue(ms.At(i)); f != nil && f.Pkg == p {
							visit(f)
						}
					}
				}
				// methods of a generic type have no MethodValue: their origin bodies are reached through FuncValue
				if named, ok := tn.Type().(*types.Named); ok && named.TypeParams().Len() > 0 {
					for i := 0; i < named.NumMethods(); i++ {
						if f := e.Prog.FuncValue(named.Method(i)); f != nil {
							visit(f)
						}
					}
				}
			}
		}
	}
	immutableChecked[key] = res
	return res
}
