package eng

import (
	"regexp"
	"bytes"
	"context"
	"crypto/sha256"
	"encoding/hex"
	"fmt"
	"os"
	"os/exec"
	"path/filepath"
	"strings"
	"sync"
	"time"
)

// SMT renders an obligation as an SMT-LIB2 script (premises, negated goal).
func (ob *Obligation) SMT(withModel bool) string { return ob.smt(withModel, false) }

// smt renders the obligation; with dropDefs the definitional unfoldings of rec spec functions are
// left out (sound: fewer premises), which often avoids matching explosions.
func (ob *Obligation) smt(withModel bool, dropDefs bool) string {
	var b strings.Builder
	all := append(append([]*Term(nil), ob.Premises...), ob.Goal)
	if withModel {
		b.WriteString("(set-option :produce-models true)\n")
	}
	b.WriteString("(set-logic ALL)\n")
	b.WriteString(Decls(all))
	for _, p := range ob.Premises {
		if dropDefs && ob.DefFact != nil && ob.DefFact[p.Key()] {
			continue
		}
		b.WriteString("(assert " + p.Key() + ")\n")
	}
	b.WriteString("(assert (not " + ob.Goal.Key() + "))\n")
	b.WriteString("(check-sat)\n")
	if withModel {
		b.WriteString("(get-model)\n")
	}
	return b.String()
}

var sfSym = regexp.MustCompile(`sf\$[A-Za-z0-9_]+`)

// smtRel is the obligation without the premises that talk about a recursive spec function the goal does
// not mention (a subset of the premises: only "unsat" means anything). Long chains of quantified facts
// about the parse functions otherwise drown goals that no longer need them (the facts they need were
// established by the earlier clauses of the same contract). Returns "" when nothing would be dropped.
func (ob *Obligation) smtRel() string {
	inGoal := map[string]bool{}
	for _, m := range sfSym.FindAllString(ob.Goal.Key(), -1) {
		inGoal[m] = true
	}
	var keep []*Term
	dropped := 0
	for _, p := range ob.Premises {
		drop := false
		for _, m := range sfSym.FindAllString(p.Key(), -1) {
			if !inGoal[m] {
				drop = true
				break
			}
		}
		if drop {
			dropped++
			continue
		}
		keep = append(keep, p)
	}
	if dropped == 0 {
		return ""
	}
	var b strings.Builder
	all := append(append([]*Term(nil), keep...), ob.Goal)
	b.WriteString("(set-logic ALL)\n")
	b.WriteString(Decls(all))
	for _, p := range keep {
		b.WriteString("(assert " + p.Key() + ")\n")
	}
	b.WriteString("(assert (not " + ob.Goal.Key() + "))\n(check-sat)\n")
	return b.String()
}

type SolverCfg struct {
	Dir      string        // scratch directory
	Quick    time.Duration // first attempt (z3-new only)
	Full     time.Duration // race timeout
	Workers  int
	TwoAgree bool // thorough: two different solvers must say unsat
}

type solverRun struct {
	name string
	args func(file string, secs int) []string
}

// extra z3 configurations for the race: different random seeds diversify the search (z3's behaviour is
// very sensitive to symbol naming/ordering; a small portfolio removes most of that instability)
var seedSolvers = []solverRun{
	{"z3-new/seed1", func(f string, s int) []string {
		return []string{"z3-new", fmt.Sprintf("-T:%d", s), "smt.random_seed=1", "sat.random_seed=1", f}
	}},
	{"z3-new/seed2", func(f string, s int) []string {
		return []string{"z3-new", fmt.Sprintf("-T:%d", s), "smt.random_seed=7", "sat.random_seed=7", "smt.arith.random_initial_value=true", f}
	}},
	{"z3/seed3", func(f string, s int) []string {
		return []string{"z3", fmt.Sprintf("-T:%d", s), "smt.random_seed=3", f}
	}},
}

var solvers = []solverRun{
	{"z3-new", func(f string, s int) []string { return []string{"z3-new", fmt.Sprintf("-T:%d", s), f} }},
	{"z3", func(f string, s int) []string { return []string{"z3", fmt.Sprintf("-T:%d", s), f} }},
	{"cvc5", func(f string, s int) []string {
		return []string{"cvc5", "--incremental", fmt.Sprintf("--tlimit=%d", s*1000), f}
	}},
}

func runSolver(ctx context.Context, sr solverRun, file string, timeout time.Duration) (string, string, float64) {
	secs := int(timeout.Seconds())
	if secs < 1 {
		secs = 1
	}
	args := sr.args(file, secs)
	cctx, cancel := context.WithTimeout(ctx, timeout+2*time.Second)
	defer cancel()
	cmd := exec.CommandContext(cctx, args[0], args[1:]...)
	var out bytes.Buffer
	cmd.Stdout = &out
	cmd.Stderr = &out
	t0 := time.Now()
	_ = cmd.Run()
	el := time.Since(t0).Seconds()
	txt := out.String()
	// the verdict is the first line that is a verdict (solvers may print warnings before it)
	for _, ln := range strings.Split(txt, "\n") {
		switch strings.TrimSpace(ln) {
		case "unsat", "sat", "unknown":
			return strings.TrimSpace(ln), txt, el
		}
	}
	if strings.Contains(txt, "timeout") || cctx.Err() != nil {
		return "timeout", txt, el
	}
	return "error", txt, el
}

var solveCache sync.Map // hash -> *cached
var keyLocks sync.Map   // hash -> *sync.Mutex

type cached struct {
	status, solver, model string
	time                  float64
}

// Discharge runs the solvers on every obligation (in parallel).
func Discharge(obs []*Obligation, cfg SolverCfg) {
	if cfg.Workers <= 0 {
		cfg.Workers = 4
	}
	_ = os.MkdirAll(cfg.Dir, 0o755)
	var wg sync.WaitGroup
	ch := make(chan *Obligation)
	for w := 0; w < cfg.Workers; w++ {
		wg.Add(1)
		go func() {
			defer wg.Done()
			for ob := range ch {
				dischargeOne(ob, cfg)
			}
		}()
	}
	// render sequentially first: term keys are cached in shared nodes (not safe to fill concurrently)
	for _, ob := range obs {
		if ob.Status == "" && ob.text == "" {
			ob.text = ob.SMT(false)
		}
	}
	for _, ob := range obs {
		if ob.Status != "" {
			continue
		}
		ch <- ob
	}
	close(ch)
	wg.Wait()
}

var failedNames sync.Map // obligation name -> true once one instance failed after stage 2

func dischargeOne(ob *Obligation, cfg SolverCfg) {
	defer func() {
		if ob.Status != "unsat" && !ob.Cover && !strings.HasPrefix(ob.Solver, "skipped") {
			failedNames.Store(ob.Name, true)
		}
	}()
	text := ob.text
	if text == "" {
		text = ob.SMT(false)
	}
	ob.text = ""
	ob.Size = len(text)
	sum := sha256.Sum256([]byte(text))
	key := hex.EncodeToString(sum[:12])
	// identical obligations (same text on different paths) are solved once
	mu, _ := keyLocks.LoadOrStore(key, &sync.Mutex{})
	mu.(*sync.Mutex).Lock()
	defer mu.(*sync.Mutex).Unlock()
	if c, ok := solveCache.Load(key); ok {
		cc := c.(*cached)
		ob.Status, ob.Solver, ob.Time, ob.Model = cc.status, cc.solver+"(cached)", 0, cc.model
		return
	}
	if len(text) > 4<<20 {
		ob.Status, ob.Solver = "error", "vc-too-large"
		return
	}
	file := filepath.Join(cfg.Dir, key+".smt2")
	if err := os.WriteFile(file, []byte(text), 0o644); err != nil {
		ob.Status = "error"
		return
	}
	defer os.Remove(file)
	ctx := context.Background()
	total := 0.0
	// stage 1: fast attempt (vacuity covers get one second: only a quick 'unsat' matters for them)
	q := cfg.Quick
	if ob.Cover {
		q = time.Second
	}
	// z3 5.x and cvc5 in parallel: each wins on a different class of obligations
	type q1 struct {
		name, st string
		el       float64
	}
	qctx, qcancel := context.WithCancel(ctx)
	qc := make(chan q1, 3)
	nq := 2
	for _, sv := range []solverRun{solvers[0], solvers[2]} {
		sv := sv
		go func() {
			a, _, el := runSolver(qctx, sv, file, q)
			qc <- q1{sv.name, a, el}
		}()
	}
	hasDefs0 := false
	for _, p := range ob.Premises {
		if ob.DefFact != nil && ob.DefFact[p.Key()] {
			hasDefs0 = true
			break
		}
	}
	if hasDefs0 && !ob.Cover {
		fileND := filepath.Join(cfg.Dir, key+".nd1.smt2")
		_ = os.WriteFile(fileND, []byte(ob.smt(false, true)), 0o644)
		defer os.Remove(fileND)
		nq++
		go func() {
			a, _, el := runSolver(qctx, solvers[0], fileND, q+4*time.Second)
			if a != "unsat" {
				a = "unknown"
			}
			qc <- q1{"z3-new/nodefs", a, el}
		}()
	}
	st, stSolver, el := "unknown", "", 0.0
	for i := 0; i < nq; i++ {
		r := <-qc
		if r.el > el {
			el = r.el
		}
		if r.st == "unsat" {
			st, stSolver = "unsat", r.name
			break
		}
		if r.st == "sat" && r.name == "z3-new" {
			st, stSolver = "sat", r.name
		}
	}
	qcancel()
	total += el
	agree := map[string]bool{}
	if st == "unsat" {
		agree[stSolver] = true
	}
	if st == "unsat" && !cfg.TwoAgree {
		ob.Status, ob.Solver, ob.Time = "unsat", stSolver, total
		solveCache.Store(key, &cached{ob.Status, ob.Solver, "", total})
		return
	}
	quickSat := st == "sat"
	if strings.Contains(ob.Name, "!") && st != "unsat" {
		// known-finding probe (expected to fail): no escalation
		ob.Status, ob.Solver, ob.Time = st, "z3-new", total
		solveCache.Store(key, &cached{ob.Status, ob.Solver, "", total})
		return
	}
	if ob.Cover {
		// vacuity cover: only a quick 'unsat' matters; anything else means the path is (possibly) feasible
		ob.Status, ob.Solver, ob.Time = st, "z3-new", total
		solveCache.Store(key, &cached{ob.Status, ob.Solver, "", total})
		return
	}
	// another instance (path) of the same named obligation has already failed after full effort:
	// the obligation is reported once by name, spending the full budget on every instance adds nothing
	if _, failed := failedNames.Load(ob.Name); failed {
		ob.Status, ob.Solver, ob.Time = st, "skipped(another instance of this obligation already failed)", total
		if ob.Status == "unsat" {
			ob.Status = "unknown"
		}
		return
	}
	// stage 2: race all three
	type res struct {
		name, st, out string
		el            float64
	}
	rctx, cancel := context.WithCancel(ctx)
	nruns := len(solvers)
	hasDefs := false
	for _, p := range ob.Premises {
		if ob.DefFact != nil && ob.DefFact[p.Key()] {
			hasDefs = true
			break
		}
	}
	rc := make(chan res, 6*len(solvers))
	for _, s := range solvers {
		s := s
		go func() {
			a, o, el := runSolver(rctx, s, file, cfg.Full)
			rc <- res{s.name, a, o, el}
		}()
	}
	for _, s := range seedSolvers {
		s := s
		nruns++
		go func() {
			a, o, el := runSolver(rctx, s, file, cfg.Full)
			if a == "sat" {
				a = "unknown" // only the default configurations are used for refutations
			}
			rc <- res{s.name, a, o, el}
		}()
	}
	if hasDefs {
		// portfolio: the same obligation without the definitional unfoldings (a subset of the premises)
		file2 := filepath.Join(cfg.Dir, key+".nodef.smt2")
		_ = os.WriteFile(file2, []byte(ob.smt(false, true)), 0o644)
		defer os.Remove(file2)
		for _, s := range solvers[:2] {
			s := s
			nruns++
			go func() {
				a, o, el := runSolver(rctx, s, file2, cfg.Full)
				if a != "unsat" {
					a = "unknown" // a model of fewer premises says nothing
				}
				rc <- res{s.name + "/nodefs", a, o, el}
			}()
		}
	}
	if rel := ob.smtRel(); rel != "" {
		file3 := filepath.Join(cfg.Dir, key+".rel.smt2")
		_ = os.WriteFile(file3, []byte(rel), 0o644)
		defer os.Remove(file3)
		for _, s := range []solverRun{solvers[0], solvers[2]} {
			s := s
			nruns++
			go func() {
				a, o, el := runSolver(rctx, s, file3, cfg.Full)
				if a != "unsat" {
					a = "unknown" // a model of fewer premises says nothing
				}
				rc <- res{s.name + "/relevant", a, o, el}
			}()
		}
	}
	final, fsolver := "unknown", ""
	var maxEl float64
	for i := 0; i < nruns; i++ {
		r := <-rc
		if r.el > maxEl {
			maxEl = r.el
		}
		if r.st == "unsat" {
			agree[r.name] = true
			if !cfg.TwoAgree || len(agree) >= 2 {
				final, fsolver = "unsat", r.name
				break
			}
		}
		if r.st == "sat" && final != "sat" {
			final, fsolver = "sat", r.name
			if len(agree) == 0 {
				break // a model exists: no point waiting for the slower solvers
			}
		}
		if r.st == "timeout" && final == "unknown" {
			final = "timeout"
		}
	}
	cancel()
	if final != "unsat" && cfg.TwoAgree && len(agree) >= 1 {
		// only one solver could prove it: accepted, but flagged
		final = "unsat"
		for n := range agree {
			fsolver = n + "(single)"
		}
	}
	if final != "unsat" && len(agree) > 0 {
		final = "unsat"
		for n := range agree {
			fsolver = n
		}
	}
	_ = quickSat
	total += maxEl
	ob.Status, ob.Solver, ob.Time = final, fsolver, total
	if final != "unsat" && !ob.Cover {
		// fetch a model (z3-new, then z3)
		mfile := filepath.Join(cfg.Dir, key+".m.smt2")
		_ = os.WriteFile(mfile, []byte(ob.SMT(true)), 0o644)
		_, out, _ := runSolver(ctx, solvers[0], mfile, cfg.Quick+5*time.Second)
		ob.Model = out
		os.Remove(mfile)
	}
	solveCache.Store(key, &cached{ob.Status, ob.Solver, ob.Model, total})
}

// SplitGoal breaks a goal into conjunct-level sub-goals (through forall and implication).
func SplitGoal(t *Term) []*Term {
	switch t.Op {
	case "and":
		var out []*Term
		for _, a := range t.Args {
			out = append(out, SplitGoal(a)...)
		}
		return out
	case "=>":
		var out []*Term
		for _, s := range SplitGoal(t.Args[1]) {
			out = append(out, Implies(t.Args[0], s))
		}
		return out
	case "forall":
		var out []*Term
		for _, s := range SplitGoal(t.Args[0]) {
			out = append(out, &Term{Op: "forall", S: BoolS, Bound: t.Bound, Args: []*Term{s}})
		}
		return out
	case "ite":
		if t.S == BoolS {
			var out []*Term
			for _, s := range SplitGoal(t.Args[1]) {
				out = append(out, Implies(t.Args[0], s))
			}
			for _, s := range SplitGoal(t.Args[2]) {
				out = append(out, Implies(Not(t.Args[0]), s))
			}
			return out
		}
	}
	return []*Term{t}
}

// Probe re-checks the conjuncts of a failed obligation separately and returns the ones that fail.
func Probe(ob *Obligation, cfg SolverCfg) []*Obligation {
	var subs []*Obligation
	for i, g := range SplitGoal(ob.Goal) {
		subs = append(subs, &Obligation{Name: fmt.Sprintf("%s~%d", ob.Name, i), Premises: ob.Premises, Goal: g, Kind: ob.Kind})
	}
	Discharge(subs, cfg)
	var bad []*Obligation
	for _, s := range subs {
		if s.Status != "unsat" {
			bad = append(bad, s)
		}
	}
	return bad
}
