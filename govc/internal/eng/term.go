// Package eng is the verification-condition generator: symbolic execution of go/ssa
// (NaiveForm) functions against contracts, emitting SMT-LIB obligations.
package eng

import (
	"fmt"
	"math/big"
	"sort"
	"strings"
)

// ---------- sorts ----------

type Sort struct {
	K    int // 0 Int, 1 Bool, 2 Array
	A, B *Sort
}

var (
	IntS  = &Sort{K: 0}
	BoolS = &Sort{K: 1}
)

var arrSorts = map[[2]*Sort]*Sort{}

func ArrS(a, b *Sort) *Sort {
	k := [2]*Sort{a, b}
	if s, ok := arrSorts[k]; ok {
		return s
	}
	s := &Sort{K: 2, A: a, B: b}
	arrSorts[k] = s
	return s
}

var (
	RowI  = ArrS(IntS, IntS)  // Int -> Int
	RowB  = ArrS(IntS, BoolS) // Int -> Bool
	HeapI = ArrS(IntS, RowI)  // obj -> idx -> Int
	HeapB = ArrS(IntS, RowB)
)

func (s *Sort) String() string {
	switch s.K {
	case 0:
		return "Int"
	case 1:
		return "Bool"
	}
	return "(Array " + s.A.String() + " " + s.B.String() + ")"
}

// ---------- terms ----------

type Term struct {
	Op    string // "var","int","true","false","app","forall","exists","const-array", or an SMT operator
	Name  string // var / uninterpreted function name
	N     *big.Int
	Args  []*Term
	S     *Sort
	Bound []*Term   // quantifier: bound variables
	Pats  [][]*Term // quantifier: triggers
	key   string
}

func (t *Term) Key() string {
	if t.key == "" {
		t.key = t.smt()
	}
	return t.key
}

func (t *Term) String() string { return t.Key() }

func (t *Term) smt() string {
	switch t.Op {
	case "var":
		return t.Name
	case "int":
		if t.N.Sign() < 0 {
			return "(- " + new(big.Int).Neg(t.N).String() + ")"
		}
		return t.N.String()
	case "true", "false":
		return t.Op
	case "const-array":
		return "((as const " + t.S.String() + ") " + t.Args[0].Key() + ")"
	case "app":
		if len(t.Args) == 0 {
			return t.Name
		}
		var b strings.Builder
		b.WriteString("(" + t.Name)
		for _, a := range t.Args {
			b.WriteString(" ")
			b.WriteString(a.Key())
		}
		b.WriteString(")")
		return b.String()
	case "forall", "exists":
		var b strings.Builder
		b.WriteString("(" + t.Op + " (")
		for _, v := range t.Bound {
			b.WriteString("(" + v.Name + " " + v.S.String() + ")")
		}
		b.WriteString(") ")
		var pats [][]*Term
		for _, p := range t.Pats {
			ok := true
			for _, x := range p {
				if strings.Contains(x.Key(), "(ite ") {
					ok = false // solvers reject patterns containing ite
				}
			}
			if ok {
				pats = append(pats, p)
			}
		}
		if len(pats) > 0 {
			b.WriteString("(! " + t.Args[0].Key())
			for _, p := range pats {
				b.WriteString(" :pattern (")
				for i, x := range p {
					if i > 0 {
						b.WriteString(" ")
					}
					b.WriteString(x.Key())
				}
				b.WriteString(")")
			}
			b.WriteString(")")
		} else {
			b.WriteString(t.Args[0].Key())
		}
		b.WriteString(")")
		return b.String()
	}
	var b strings.Builder
	b.WriteString("(" + t.Op)
	for _, a := range t.Args {
		b.WriteString(" ")
		b.WriteString(a.Key())
	}
	b.WriteString(")")
	return b.String()
}

func Var(name string, s *Sort) *Term { return &Term{Op: "var", Name: name, S: s} }
func Num(n int64) *Term               { return &Term{Op: "int", N: big.NewInt(n), S: IntS} }
func NumB(n *big.Int) *Term           { return &Term{Op: "int", N: new(big.Int).Set(n), S: IntS} }

var (
	True  = &Term{Op: "true", S: BoolS}
	False = &Term{Op: "false", S: BoolS}
	Zero  = Num(0)
	One   = Num(1)
)

func Pow2(n uint) *Term { return NumB(new(big.Int).Lsh(big.NewInt(1), n)) }

func BoolT(b bool) *Term {
	if b {
		return True
	}
	return False
}

func (t *Term) IsConst() bool { return t.Op == "int" }
func (t *Term) IsTrue() bool  { return t.Op == "true" }
func (t *Term) IsFalse() bool { return t.Op == "false" }

func mk(op string, s *Sort, args ...*Term) *Term { return &Term{Op: op, S: s, Args: args} }

func App(name string, s *Sort, args ...*Term) *Term {
	return &Term{Op: "app", Name: name, S: s, Args: args}
}

func ConstArray(s *Sort, v *Term) *Term { return &Term{Op: "const-array", S: s, Args: []*Term{v}} }

func same(a, b *Term) bool { return a == b || a.Key() == b.Key() }

// ---------- integer arithmetic with light simplification ----------

func Add(a, b *Term) *Term {
	if a.IsConst() && b.IsConst() {
		return NumB(new(big.Int).Add(a.N, b.N))
	}
	if a.IsConst() && a.N.Sign() == 0 {
		return b
	}
	if b.IsConst() && b.N.Sign() == 0 {
		return a
	}
	// (x + c1) + c2
	if b.IsConst() && a.Op == "+" && len(a.Args) == 2 && a.Args[1].IsConst() {
		return Add(a.Args[0], NumB(new(big.Int).Add(a.Args[1].N, b.N)))
	}
	if b.IsConst() && a.Op == "-" && len(a.Args) == 2 && a.Args[1].IsConst() {
		return Add(a.Args[0], NumB(new(big.Int).Sub(b.N, a.Args[1].N)))
	}
	if b.IsConst() && b.N.Sign() < 0 {
		return mk("-", IntS, a, NumB(new(big.Int).Neg(b.N)))
	}
	// x + (y - x) = y
	if b.Op == "-" && len(b.Args) == 2 && same(b.Args[1], a) {
		return b.Args[0]
	}
	if a.Op == "-" && len(a.Args) == 2 && same(a.Args[1], b) {
		return a.Args[0]
	}
	return mk("+", IntS, a, b)
}

func Sub(a, b *Term) *Term {
	if b.IsConst() {
		return Add(a, NumB(new(big.Int).Neg(b.N)))
	}
	if same(a, b) {
		return Zero
	}
	// (x + y) - x = y
	if a.Op == "+" && len(a.Args) == 2 {
		if same(a.Args[0], b) {
			return a.Args[1]
		}
		if same(a.Args[1], b) {
			return a.Args[0]
		}
	}
	return mk("-", IntS, a, b)
}

func Neg(a *Term) *Term { return Sub(Zero, a) }

func Mul(a, b *Term) *Term {
	if a.IsConst() && b.IsConst() {
		return NumB(new(big.Int).Mul(a.N, b.N))
	}
	if a.IsConst() {
		a, b = b, a
	}
	if b.IsConst() {
		if b.N.Sign() == 0 {
			return Zero
		}
		if b.N.Cmp(big.NewInt(1)) == 0 {
			return a
		}
	}
	return mk("*", IntS, a, b)
}

// Div / Mod are SMT-LIB (floor for positive divisor) division.
func Div(a, b *Term) *Term {
	if a.IsConst() && b.IsConst() && b.N.Sign() > 0 {
		q, _ := new(big.Int).DivMod(a.N, b.N, new(big.Int))
		return NumB(q)
	}
	if b.IsConst() && b.N.Cmp(big.NewInt(1)) == 0 {
		return a
	}
	return mk("div", IntS, a, b)
}

func Mod(a, b *Term) *Term {
	if a.IsConst() && b.IsConst() && b.N.Sign() > 0 {
		_, m := new(big.Int).DivMod(a.N, b.N, new(big.Int))
		return NumB(m)
	}
	return mk("mod", IntS, a, b)
}

func cmp(op string, a, b *Term) *Term {
	if a.IsConst() && b.IsConst() {
		c := a.N.Cmp(b.N)
		switch op {
		case "<":
			return BoolT(c < 0)
		case "<=":
			return BoolT(c <= 0)
		case ">":
			return BoolT(c > 0)
		case ">=":
			return BoolT(c >= 0)
		}
	}
	if same(a, b) {
		return BoolT(op == "<=" || op == ">=")
	}
	return mk(op, BoolS, a, b)
}

func Lt(a, b *Term) *Term { return cmp("<", a, b) }
func Le(a, b *Term) *Term { return cmp("<=", a, b) }
func Gt(a, b *Term) *Term { return cmp(">", a, b) }
func Ge(a, b *Term) *Term { return cmp(">=", a, b) }

func Eq(a, b *Term) *Term {
	if a.S != b.S {
		panic(fmt.Sprintf("Eq: sort mismatch %s vs %s in %s = %s", a.S, b.S, a, b))
	}
	if a.IsConst() && b.IsConst() {
		return BoolT(a.N.Cmp(b.N) == 0)
	}
	if same(a, b) {
		return True
	}
	if a.S == BoolS {
		if a.IsTrue() {
			return b
		}
		if b.IsTrue() {
			return a
		}
		if a.IsFalse() {
			return Not(b)
		}
		if b.IsFalse() {
			return Not(a)
		}
	}
	return mk("=", BoolS, a, b)
}

func Ne(a, b *Term) *Term { return Not(Eq(a, b)) }

func Not(a *Term) *Term {
	switch a.Op {
	case "true":
		return False
	case "false":
		return True
	case "not":
		return a.Args[0]
	case "<":
		return Ge(a.Args[0], a.Args[1])
	case "<=":
		return Gt(a.Args[0], a.Args[1])
	case ">":
		return Le(a.Args[0], a.Args[1])
	case ">=":
		return Lt(a.Args[0], a.Args[1])
	}
	return mk("not", BoolS, a)
}

func And(xs ...*Term) *Term {
	var out []*Term
	for _, x := range xs {
		if x.IsTrue() {
			continue
		}
		if x.IsFalse() {
			return False
		}
		if x.Op == "and" {
			out = append(out, x.Args...)
		} else {
			out = append(out, x)
		}
	}
	switch len(out) {
	case 0:
		return True
	case 1:
		return out[0]
	}
	return mk("and", BoolS, out...)
}

func Or(xs ...*Term) *Term {
	var out []*Term
	for _, x := range xs {
		if x.IsFalse() {
			continue
		}
		if x.IsTrue() {
			return True
		}
		if x.Op == "or" {
			out = append(out, x.Args...)
		} else {
			out = append(out, x)
		}
	}
	switch len(out) {
	case 0:
		return False
	case 1:
		return out[0]
	}
	return mk("or", BoolS, out...)
}

func Implies(a, b *Term) *Term {
	if a.IsTrue() {
		return b
	}
	if a.IsFalse() || b.IsTrue() {
		return True
	}
	if b.IsFalse() {
		return Not(a)
	}
	return mk("=>", BoolS, a, b)
}

func Ite(c, a, b *Term) *Term {
	if c.IsTrue() {
		return a
	}
	if c.IsFalse() {
		return b
	}
	if same(a, b) {
		return a
	}
	if a.S == BoolS {
		if a.IsTrue() && b.IsFalse() {
			return c
		}
		if a.IsFalse() && b.IsTrue() {
			return Not(c)
		}
	}
	return mk("ite", a.S, c, a, b)
}

func Select(a, i *Term) *Term {
	if a.S.K != 2 {
		panic("select on non-array " + a.String())
	}
	if a.Op == "store" {
		if same(a.Args[1], i) {
			return a.Args[2]
		}
		if a.Args[1].IsConst() && i.IsConst() {
			return Select(a.Args[0], i)
		}
	}
	if a.Op == "const-array" {
		return a.Args[0]
	}
	return mk("select", a.S.B, a, i)
}

func Store(a, i, v *Term) *Term {
	if v.S != a.S.B {
		panic(fmt.Sprintf("store sort mismatch: %s into %s", v.S, a.S))
	}
	return mk("store", a.S, a, i, v)
}

func Forall(bound []*Term, pats [][]*Term, body *Term) *Term {
	if body.IsTrue() {
		return True
	}
	return &Term{Op: "forall", S: BoolS, Bound: bound, Pats: pats, Args: []*Term{body}}
}

func Exists(bound []*Term, body *Term) *Term {
	if body.IsFalse() {
		return False
	}
	return &Term{Op: "exists", S: BoolS, Bound: bound, Args: []*Term{body}}
}

func Min(a, b *Term) *Term { return Ite(Le(a, b), a, b) }
func Max(a, b *Term) *Term { return Ite(Ge(a, b), a, b) }

// ---------- traversal ----------

// Walk calls f on every node (pre-order). Quantifier bound variables are visited as
// part of Bound, callers that collect free symbols must subtract them.
func Walk(t *Term, f func(*Term)) {
	f(t)
	for _, a := range t.Args {
		Walk(a, f)
	}
	for _, p := range t.Pats {
		for _, x := range p {
			Walk(x, f)
		}
	}
}

// Subst replaces variables by name.
func Subst(t *Term, m map[string]*Term) *Term {
	if len(m) == 0 {
		return t
	}
	return subst(t, m)
}

func subst(t *Term, m map[string]*Term) *Term {
	switch t.Op {
	case "var":
		if r, ok := m[t.Name]; ok {
			return r
		}
		return t
	case "int", "true", "false":
		return t
	}
	changed := false
	args := make([]*Term, len(t.Args))
	for i, a := range t.Args {
		args[i] = subst(a, m)
		if args[i] != a {
			changed = true
		}
	}
	var pats [][]*Term
	if len(t.Pats) > 0 {
		pats = make([][]*Term, len(t.Pats))
		for i, p := range t.Pats {
			pats[i] = make([]*Term, len(p))
			for j, x := range p {
				pats[i][j] = subst(x, m)
				if pats[i][j] != x {
					changed = true
				}
			}
		}
	}
	if !changed {
		return t
	}
	n := &Term{Op: t.Op, Name: t.Name, N: t.N, S: t.S, Bound: t.Bound, Args: args, Pats: pats}
	// re-simplify the common operators so that substituted constants fold
	switch t.Op {
	case "+":
		if len(args) == 2 {
			return Add(args[0], args[1])
		}
	case "-":
		if len(args) == 2 {
			return Sub(args[0], args[1])
		}
	case "*":
		if len(args) == 2 {
			return Mul(args[0], args[1])
		}
	case "div":
		return Div(args[0], args[1])
	case "mod":
		return Mod(args[0], args[1])
	case "<", "<=", ">", ">=":
		return cmp(t.Op, args[0], args[1])
	case "=":
		return Eq(args[0], args[1])
	case "not":
		return Not(args[0])
	case "and":
		return And(args...)
	case "or":
		return Or(args...)
	case "=>":
		return Implies(args[0], args[1])
	case "ite":
		return Ite(args[0], args[1], args[2])
	case "select":
		return Select(args[0], args[1])
	}
	return n
}

// Decls returns SMT-LIB declarations for all free symbols of the given terms.
func Decls(ts []*Term) string {
	type d struct {
		name string
		text string
	}
	seen := map[string]string{}
	for _, t := range ts {
		collectDecls(t, map[string]bool{}, seen)
	}
	names := make([]string, 0, len(seen))
	for n := range seen {
		names = append(names, n)
	}
	sort.Strings(names)
	var b strings.Builder
	for _, n := range names {
		b.WriteString(seen[n])
		b.WriteString("\n")
	}
	return b.String()
}

func collectDecls(t *Term, bound map[string]bool, out map[string]string) {
	switch t.Op {
	case "var":
		if !bound[t.Name] {
			if _, ok := out[t.Name]; !ok {
				out[t.Name] = "(declare-fun " + t.Name + " () " + t.S.String() + ")"
			}
		}
		return
	case "app":
		if _, ok := out[t.Name]; !ok {
			var b strings.Builder
			b.WriteString("(declare-fun " + t.Name + " (")
			for i, a := range t.Args {
				if i > 0 {
					b.WriteString(" ")
				}
				b.WriteString(a.S.String())
			}
			b.WriteString(") " + t.S.String() + ")")
			out[t.Name] = b.String()
		}
	case "forall", "exists":
		nb := map[string]bool{}
		for k := range bound {
			nb[k] = true
		}
		for _, v := range t.Bound {
			nb[v.Name] = true
		}
		bound = nb
	}
	for _, a := range t.Args {
		collectDecls(a, bound, out)
	}
	for _, p := range t.Pats {
		for _, x := range p {
			collectDecls(x, bound, out)
		}
	}
}
