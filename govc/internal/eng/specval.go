package eng

import (
	"fmt"
	"strconv"
	"go/constant"
	"go/token"
	"go/types"
	"math/big"
	"sort"
	"strings"

	"golang.org/x/tools/go/ssa"
)

type VNil struct{}

type recDep struct {
	name string
	sort *Sort
	pidx int // >= 0: only the row of that parameter's object (slice obj / map ref) is read; -1: whole heap
}

type recInfo struct {
	deps      []recDep
	computing bool
	ret       *Sort
}

type rowRec struct {
	sort *Sort
	obj  *Term
}

type specCtx struct {
	e        *Engine
	st       *State
	env      map[string]Val
	oldEnv   map[string]Val
	heaps    map[string]*Term
	oldHeaps map[string]*Term
	fr       *Frame
	pos      token.Pos
	iter     *Term
	pkg      *ssa.Package
	oldAlloc *Term
	bound    map[string]bool
	record   map[string]*Sort
	recRows  map[string]rowRec // name|objkey -> row access (recording mode)
	noUnfold bool
	results  []Val
	goal     bool                // the expression is being proved (not assumed): no trigger rebasing, one-directional byte equalities
	iters    func(ord int) *Term // value of "#nK": completed iterations of loop K when the function returned
}

func (c *specCtx) sub() *specCtx {
	n := *c
	n.env = make(map[string]Val, len(c.env)+2)
	for k, v := range c.env {
		n.env[k] = v
	}
	return &n
}

func (c *specCtx) fail(format string, a ...interface{}) {
	panic(&SpecError{fmt.Sprintf(format, a...)})
}

type SpecError struct{ Msg string }

func (s *SpecError) Error() string { return "contract error: " + s.Msg }

func (c *specCtx) heap(name string, s *Sort) *Term {
	if c.record != nil {
		c.record[name] = s
	}
	if h, ok := c.heaps[name]; ok {
		return h
	}
	// never touched in that snapshot: initial symbol
	h := c.e.heap(c.st, name, s) // ensures existence in st
	if hh, ok := c.heaps[name]; ok {
		return hh
	}
	_ = h
	return Var(name+"!0", s)
}

// heapRow reads one object's row of a two-level heap; in recording mode only the row is a dependency.
func (c *specCtx) heapRow(name string, s *Sort, obj *Term) *Term {
	if c.record != nil && c.recRows != nil {
		c.recRows[name+"|"+obj.Key()] = rowRec{s, obj}
		save := c.record
		c.record = nil
		h := c.heap(name, s)
		c.record = save
		return Select(h, obj)
	}
	return Select(c.heap(name, s), obj)
}

func (c *specCtx) loadLoc(l *Loc) Val {
	switch l.Kind {
	case LCell, LGlobal:
		return c.e.load(c.st, l)
	case LHeap:
		prefix, t := pathInfo(l.Base, l.Path)
		ls := leavesOf(t)
		ts := make([]*Term, len(ls))
		c.e.ensureWF(c.st, l.Base, false)
		for i, lf := range ls {
			ts[i] = Select(c.heap(ptrHeapName(l.Base, prefix+lf.path), heapSort(lf.sort, false)), l.Ref)
		}
		v, _ := Unflatten(t, ts)
		return v
	case LElem:
		prefix, t := pathInfo(l.Base, l.Path)
		ls := leavesOf(t)
		ts := make([]*Term, len(ls))
		c.e.ensureWF(c.st, l.Base, true)
		for i, lf := range ls {
			ts[i] = Select(c.heapRow(elemHeapName(l.Base, prefix+lf.path), heapSort(lf.sort, true), l.Obj), l.Idx)
		}
		v, _ := Unflatten(t, ts)
		return v
	}
	panic("bad loc")
}

func (c *specCtx) evalBool(x Expr) *Term {
	v := c.eval(x)
	b, ok := v.(VBool)
	if !ok {
		if _, nocall := v.(VOpaque); nocall {
			return c.e.fresh("nocallbool", BoolS) // value of a call that did not happen on this path: arbitrary
		}
		c.fail("boolean expected, got %T", v)
	}
	return b.T
}

func (c *specCtx) evalInt(x Expr) *Term {
	v := c.eval(x)
	switch i := v.(type) {
	case VInt:
		return i.T
	case VTime:
		return i.T
	case VOpaque: // value of a call that did not happen on this path: arbitrary
		return i.Id
	}
	c.fail("integer expected, got %T", v)
	return nil
}

func fieldIndex(t types.Type, name string) (int, types.Type, bool) {
	st, ok := under(t).(*types.Struct)
	if !ok {
		return 0, nil, false
	}
	for i := 0; i < st.NumFields(); i++ {
		if st.Field(i).Name() == name {
			return i, st.Field(i).Type(), true
		}
	}
	return 0, nil, false
}

func (c *specCtx) lookupLocal(name string) (Val, bool) {
	if c.fr == nil {
		return nil, false
	}
	var cands []*ssa.Alloc
	for a := range c.fr.cells {
		if a.Comment == name {
			cands = append(cands, a)
		}
	}
	if len(cands) == 0 {
		// captured variables of a closure verified on its own: their current value
		for i, fv := range c.fr.fn.FreeVars {
			if fv.Name() == name && i < len(c.fr.freeVars) {
				if p, ok := c.fr.freeVars[i].(VPtr); ok && p.L != nil {
					return c.loadLoc(p.L), true
				}
			}
		}
		// heap-allocated locals
		for v, r := range c.fr.regs {
			if a, ok := v.(*ssa.Alloc); ok && a.Comment == name {
				if p, ok := r.(VPtr); ok && p.L.Kind != LCell {
					return c.loadLoc(p.L), true
				}
			}
		}
		return nil, false
	}
	pick := cands[0]
	if len(cands) > 1 {
		sort.Slice(cands, func(i, j int) bool { return cands[i].Pos() < cands[j].Pos() })
		pick = nil
		if c.pos.IsValid() && c.fr.fn.Pkg != nil {
			if sc := c.fr.fn.Pkg.Pkg.Scope().Innermost(c.pos); sc != nil {
				if _, obj := sc.LookupParent(name, c.pos); obj != nil {
					for _, a := range cands {
						if a.Pos() == obj.Pos() {
							pick = a
						}
					}
				}
			}
		}
		if pick == nil {
			c.fail("ambiguous local %q (declared %d times); rename or qualify", name, len(cands))
		}
	}
	cell := c.fr.cells[pick]
	v, ok := c.st.cellv[cell]
	return v, ok
}

func (c *specCtx) pkgMember(pkg *types.Package, name string) (Val, bool) {
	obj := pkg.Scope().Lookup(name)
	if obj == nil {
		return nil, false
	}
	switch o := obj.(type) {
	case *types.Const:
		return constToVal(c.e, c.st, o.Val()), true
	case *types.Var:
		sp := c.e.Prog.Package(pkg)
		if sp == nil {
			return nil, false
		}
		g, ok := sp.Members[name].(*ssa.Global)
		if !ok {
			return nil, false
		}
		return c.e.load(c.st, &Loc{Kind: LGlobal, Global: g, Base: g.Type().(*types.Pointer).Elem()}), true
	}
	return nil, false
}

func constToVal(e *Engine, st *State, v constant.Value) Val {
	switch v.Kind() {
	case constant.Bool:
		return VBool{BoolT(constant.BoolVal(v))}
	case constant.Int:
		n, _ := new(big.Int).SetString(v.ExactString(), 10)
		return VInt{NumB(n)}
	case constant.String:
		return e.stringLit(st, constant.StringVal(v))
	}
	panic(&SpecError{"unsupported constant kind"})
}

func (c *specCtx) importedPkg(name string) *types.Package {
	if c.pkg == nil {
		return nil
	}
	for _, imp := range c.pkg.Pkg.Imports() {
		if imp.Name() == name {
			return imp
		}
	}
	// also allow referring to any loaded package by its name (for std specs)
	for _, p := range c.e.Prog.AllPackages() {
		if p.Pkg.Name() == name {
			return p.Pkg
		}
	}
	return nil
}

func (c *specCtx) eval(x Expr) Val {
	switch n := x.(type) {
	case *EInt:
		return VInt{NumB(n.V)}
	case *EBool:
		return VBool{BoolT(n.V)}
	case *ENil:
		return VNil{}
	case *EStr:
		return c.e.stringLit(c.st, n.S)
	case *EIdent:
		if n.Name == "#iter" {
			if c.iter == nil {
				c.fail("#iter outside loop")
			}
			return VInt{c.iter}
		}
		if strings.HasPrefix(n.Name, "#n") {
			ord, err := strconv.Atoi(n.Name[2:])
			if err != nil || c.iters == nil {
				c.fail("%s not available here", n.Name)
			}
			return VInt{c.iters(ord)}
		}
		if v, ok := c.env[n.Name]; ok {
			return v
		}
		if v, ok := c.lookupLocal(n.Name); ok {
			return v
		}
		if c.st.ghost != nil {
			if v, ok := c.st.ghost[n.Name]; ok {
				return v
			}
		}
		if c.pkg != nil {
			if v, ok := c.pkgMember(c.pkg.Pkg, n.Name); ok {
				return v
			}
		}
		c.fail("unknown identifier %q", n.Name)
	case *ESel:
		if id, ok := n.X.(*EIdent); ok {
			if wt, ok := c.st.witnessOf[id.Name+"."+n.Name]; ok {
				if _, isVar := c.env[id.Name]; !isVar {
					return VInt{wt} // witness of the most recent call to that callee on this path
				}
			}
			if _, isVar := c.env[id.Name]; !isVar {
				if _, isLocal := c.lookupLocal(id.Name); !isLocal {
					if p := c.importedPkg(id.Name); p != nil {
						if v, ok := c.pkgMember(p, n.Name); ok {
							return v
						}
						c.fail("unknown %s.%s", id.Name, n.Name)
					}
				}
			}
		}
		base := c.eval(n.X)
		return c.field(base, n.Name)
	case *EIndex:
		base := c.eval(n.X)
		switch b := base.(type) {
		case VSlice:
			i := c.evalInt(n.I)
			return c.loadLoc(&Loc{Kind: LElem, Base: b.Elem, Obj: b.Obj, Idx: Add(b.Off, i)})
		case VString:
			i := c.evalInt(n.I)
			return VInt{Select(c.heapRow(strHeap, HeapI, b.Obj), Add(b.Off, i))}
		case VMap:
			v, _ := c.mapGet(b, c.eval(n.I))
			return v
		case VStruct: // small array
			i := c.evalInt(n.I)
			if !i.IsConst() {
				c.fail("symbolic index into array value")
			}
			return b.F[i.N.Int64()]
		}
		c.fail("indexing %T", base)
	case *ESlice:
		base := c.eval(n.X)
		lo := Zero
		if n.Lo != nil {
			lo = c.evalInt(n.Lo)
		}
		switch b := base.(type) {
		case VSlice:
			hi := b.Len
			if n.Hi != nil {
				hi = c.evalInt(n.Hi)
			}
			return VSlice{b.Obj, Add(b.Off, lo), Sub(hi, lo), Sub(b.Cap, lo), b.Elem}
		case VString:
			hi := b.Len
			if n.Hi != nil {
				hi = c.evalInt(n.Hi)
			}
			return VString{b.Obj, Add(b.Off, lo), Sub(hi, lo)}
		}
		c.fail("slicing %T", base)
	case *EUn:
		switch n.Op {
		case "!":
			return VBool{Not(c.evalBool(n.X))}
		case "-":
			return VInt{Neg(c.evalInt(n.X))}
		case "*":
			p, ok := c.eval(n.X).(VPtr)
			if !ok {
				c.fail("deref of non-pointer")
			}
			if p.L == nil {
				c.fail("deref of nil literal")
			}
			return c.loadLoc(p.L)
		}
	case *EBin:
		return c.evalBin(n)
	case *ECall:
		return c.evalCall(n)
	case *EQuant:
		sub := c.sub()
		sub.bound = map[string]bool{}
		for k := range c.bound {
			sub.bound[k] = true
		}
		var bvs []*Term
		for _, v := range n.Vars {
			s := IntS
			if v.Type == "bool" {
				s = BoolS
			}
			// canonical names (by nesting depth) so that the same clause evaluated twice yields the same text
			bv := Var(fmt.Sprintf("q%d_%s", len(sub.bound), v.Name), s)
			bvs = append(bvs, bv)
			sub.bound[bv.Name] = true
			if s == IntS {
				sub.env[v.Name] = VInt{bv}
				// a trigger s[j] on a slice with a symbolic offset cannot be matched (off+j is arithmetic):
				// quantify over the absolute index a = off + j instead.
				for _, tg := range n.Trig {
					if c.goal {
						break
					}
					for _, te := range tg {
						if ix := findIndexBy(te, v.Name); ix != nil {
							if bs, ok := sub.tryEval(ix.X); ok {
								if sl, ok := bs.(VSlice); ok && !(sl.Off.IsConst() && sl.Off.N.Sign() == 0) {
									if cur, isInt := sub.env[v.Name].(VInt); isInt && cur.T == bv {
										sub.env[v.Name] = VInt{Sub(bv, sl.Off)}
									}
								}
							}
						}
					}
				}
			} else {
				sub.env[v.Name] = VBool{bv}
			}
		}
		var pats [][]*Term
		for _, tg := range n.Trig {
			var p []*Term
			for _, te := range tg {
				p = append(p, Flatten(sub.eval(te))...)
			}
			pats = append(pats, p)
		}
		body := sub.evalBool(n.Body)
		if n.Forall {
			return VBool{Forall(bvs, pats, body)}
		}
		return VBool{Exists(bvs, body)}
	case *ELit:
		t, err := c.e.resolveType(c.pkg, n.Type)
		if err != nil {
			c.fail("composite literal: %v", err)
		}
		st, ok := under(t).(*types.Struct)
		if !ok {
			c.fail("composite literal of non-struct %s", n.Type)
		}
		zv := ZeroVal(t).(VStruct)
		fs := append([]Val(nil), zv.F...)
		for i, fn := range n.Names {
			idx, _, ok := fieldIndex(t, fn)
			if !ok {
				c.fail("no field %s in %s", fn, n.Type)
			}
			v := c.eval(n.Values[i])
			if _, isNil := v.(VNil); isNil {
				v = ZeroVal(st.Field(idx).Type())
			}
			fs[idx] = v
		}
		return VStruct{T: t, F: fs}
	case *ELet:
		sub := c.sub()
		sub.env[n.Name] = c.eval(n.Val)
		return sub.eval(n.Body)
	}
	c.fail("cannot evaluate %T", x)
	return nil
}

func (c *specCtx) field(base Val, name string) Val {
	switch b := base.(type) {
	case VOpaque: // argument/result of a call that did not happen on this path: any field of it is arbitrary too
		return VOpaque{Id: c.e.fresh("nocall", IntS)}
	case VStruct:
		i, _, ok := fieldIndex(b.T, name)
		if !ok {
			c.fail("no field %s in %s", name, b.T)
		}
		return b.F[i]
	case VPtr:
		if b.L == nil {
			c.fail("field of nil")
		}
		i, ft, ok := fieldIndex(b.Elem, name)
		if !ok {
			c.fail("no field %s in %s", name, b.Elem)
		}
		nl := *b.L
		nl.Path = append(append([]pathStep(nil), b.L.Path...), pathStep{Field: i})
		_ = ft
		return c.loadLoc(&nl)
	case VSlice:
		switch name {
		case "obj":
			return VInt{b.Obj}
		case "off":
			return VInt{b.Off}
		}
	case VString:
		switch name {
		case "obj":
			return VInt{b.Obj}
		}
	}
	c.fail("field %s of %T", name, base)
	return nil
}

func (c *specCtx) mapGet(m VMap, key Val) (Val, *Term) {
	if m.Conc != nil {
		return c.e.mapGet(c.st, m, key)
	}
	kt := keyTerm(key)
	pn, vns := mapHeapNames(m.K, m.V)
	pres := Select(c.heapRow(pn, HeapB, m.Ref), kt)
	ls := leavesOf(m.V)
	ts := make([]*Term, len(ls))
	for i, l := range ls {
		ts[i] = Select(c.heapRow(vns[i], heapSort(l.sort, true), m.Ref), kt)
	}
	v, _ := Unflatten(m.V, ts)
	return iteVal(pres, v, ZeroVal(m.V)), pres
}

func (c *specCtx) specEq(a, b Val) *Term {
	_, oa := a.(VOpaque)
	_, ob := b.(VOpaque)
	if oa != ob {
		// one side is a value of a call that did not happen on this path (clauses guard with called/callCount): unknown
		return c.e.fresh("nocallcmp", BoolS)
	}
	if _, ok := a.(VNil); ok {
		a, b = b, a
	}
	if _, ok := b.(VNil); ok {
		switch x := a.(type) {
		case VSlice:
			return Eq(x.Obj, Zero)
		case VErr:
			return Eq(x.Id, Zero)
		case VPtr:
			if x.L == nil {
				return True
			}
			if x.L.Kind == LHeap && len(x.L.Path) == 0 {
				return Eq(x.L.Ref, Zero)
			}
			return False
		case VMap:
			return Eq(x.Ref, Zero)
		case VFunc:
			if x.Id != nil {
				return Eq(x.Id, Zero)
			}
			return BoolT(x.Fn == nil)
		case VIface:
			return Eq(x.Tag, Zero)
		case VChan:
			return Eq(x.Id, Zero)
		case VNil:
			return True
		}
		c.fail("comparison of %T with nil", a)
	}
	switch x := a.(type) {
	case VSlice:
		y, ok := b.(VSlice)
		if !ok {
			c.fail("slice compared with %T", b)
		}
		return And(Eq(x.Obj, y.Obj), Eq(x.Off, y.Off), Eq(x.Len, y.Len))
	case VString:
		y := b.(VString)
		if same(x.Obj, y.Obj) && same(x.Off, y.Off) && same(x.Len, y.Len) {
			return True
		}
		if eq, ok := itoaEq(x, y); ok {
			return eq
		}
		h := c.heap(strHeap, HeapI)
		i := c.e.fresh("i", IntS)
		return And(Eq(x.Len, y.Len), Forall([]*Term{i}, nil,
			Implies(And(Le(Zero, i), Lt(i, x.Len)),
				Eq(Select(Select(h, x.Obj), Add(x.Off, i)), Select(Select(h, y.Obj), Add(y.Off, i))))))
	case VStruct:
		y := b.(VStruct)
		var cs []*Term
		for i := range x.F {
			cs = append(cs, c.specEq(x.F[i], y.F[i]))
		}
		return And(cs...)
	case VPtr:
		return c.e.ptrEq(x, b.(VPtr))
	}
	fa, fb := Flatten(a), Flatten(b)
	if len(fa) != len(fb) {
		c.fail("comparison of differently shaped values %T and %T", a, b)
	}
	var cs []*Term
	for i := range fa {
		if fa[i].S != fb[i].S {
			c.fail("comparison of %T and %T", a, b)
		}
		cs = append(cs, Eq(fa[i], fb[i]))
	}
	return And(cs...)
}

func (c *specCtx) evalBin(n *EBin) Val {
	switch n.Op {
	case "&&":
		x := c.evalBool(n.X)
		if x.IsFalse() { // short circuit: the right operand may be meaningless (callArg of a call that did not happen)
			return VBool{False}
		}
		return VBool{And(x, c.evalBool(n.Y))}
	case "||":
		x := c.evalBool(n.X)
		if x.IsTrue() {
			return VBool{True}
		}
		return VBool{Or(x, c.evalBool(n.Y))}
	case "==>":
		x := c.evalBool(n.X)
		if x.IsFalse() {
			return VBool{True}
		}
		return VBool{Implies(x, c.evalBool(n.Y))}
	case "<==>":
		return VBool{Eq(c.evalBool(n.X), c.evalBool(n.Y))}
	case "==":
		return VBool{c.specEq(c.eval(n.X), c.eval(n.Y))}
	case "!=":
		return VBool{Not(c.specEq(c.eval(n.X), c.eval(n.Y)))}
	}
	a, b := c.evalInt(n.X), c.evalInt(n.Y)
	switch n.Op {
	case "<":
		return VBool{Lt(a, b)}
	case "<=":
		return VBool{Le(a, b)}
	case ">":
		return VBool{Gt(a, b)}
	case ">=":
		return VBool{Ge(a, b)}
	case "+":
		return VInt{Add(a, b)}
	case "-":
		return VInt{Sub(a, b)}
	case "*":
		return VInt{Mul(a, b)}
	case "/":
		return VInt{Div(a, b)}
	case "%":
		return VInt{Mod(a, b)}
	case "<<":
		if !b.IsConst() {
			c.fail("spec shift by non-constant")
		}
		return VInt{Mul(a, Pow2(uint(b.N.Uint64())))}
	case ">>":
		if !b.IsConst() {
			c.fail("spec shift by non-constant")
		}
		return VInt{Div(a, Pow2(uint(b.N.Uint64())))}
	case "&":
		if b.IsConst() {
			return VInt{bitAndConst(a, b.N, 64)}
		}
		if a.IsConst() {
			return VInt{bitAndConst(b, a.N, 64)}
		}
		c.fail("spec & needs a constant operand")
	}
	c.fail("operator %s", n.Op)
	return nil
}

var convWidths = map[string]intInfo{
	"int": {64, true}, "int64": {64, true}, "int32": {32, true}, "int16": {16, true}, "int8": {8, true},
	"uint": {64, false}, "uint64": {64, false}, "uint32": {32, false}, "uint16": {16, false}, "uint8": {8, false}, "byte": {8, false},
}

func (c *specCtx) evalCall(n *ECall) Val {
	// qualified builtins
	if sel, ok := n.Fun.(*ESel); ok {
		if id, ok := sel.X.(*EIdent); ok {
			switch id.Name + "." + sel.Name {
			case "errors.Is":
				a := c.eval(n.Args[0]).(VErr)
				b := c.eval(n.Args[1]).(VErr)
				return VBool{c.e.errIs(c.st, a.Id, b.Id)}
			}
			if id.Name == "contract" || id.Name == "requiresOf" {
				return c.contractOf(sel.Name, n.Args, id.Name == "requiresOf")
			}
		}
		c.fail("unknown function %s.%s", fmt.Sprint(sel.X), sel.Name)
	}
	id, ok := n.Fun.(*EIdent)
	if !ok {
		c.fail("call of non-identifier")
	}
	if ii, ok := convWidths[id.Name]; ok && len(n.Args) == 1 {
		t := c.evalInt(n.Args[0])
		if id.Name == "int" || id.Name == "int64" {
			return VInt{t} // mathematical integers in specs
		}
		return VInt{ii.wrap(t)}
	}
	switch id.Name {
	case "len":
		switch v := c.eval(n.Args[0]).(type) {
		case VSlice:
			return VInt{v.Len}
		case VString:
			return VInt{v.Len}
		case VMap:
			return VInt{c.e.mapLen(c.st, v)}
		case VOpaque: // value of a call that did not happen on this path: its length is arbitrary too
			return VInt{c.e.fresh("nocall", IntS)}
		}
		c.fail("len of non-slice")
	case "cap":
		return VInt{c.eval(n.Args[0]).(VSlice).Cap}
	case "ite":
		cond := c.evalBool(n.Args[0])
		a, b := c.eval(n.Args[1]), c.eval(n.Args[2])
		if _, ok := a.(VNil); ok {
			a = nilLike(b)
		}
		if _, ok := b.(VNil); ok {
			b = nilLike(a)
		}
		return iteVal(cond, a, b)
	case "min":
		return VInt{Min(c.evalInt(n.Args[0]), c.evalInt(n.Args[1]))}
	case "max":
		return VInt{Max(c.evalInt(n.Args[0]), c.evalInt(n.Args[1]))}
	case "old":
		sub := c.sub()
		sub.heaps = c.oldHeaps
		// old() affects the heap and parameters (entry values); locals keep their current values
		if c.oldEnv != nil {
			for k, v := range c.oldEnv {
				sub.env[k] = v
			}
		}
		return sub.eval(n.Args[0])
	case "fresh": // object allocated during the call
		v := c.eval(n.Args[0])
		a := c.oldAlloc
		if a == nil {
			a = c.st.alloc0
		}
		switch s := v.(type) {
		case VSlice:
			return VBool{Ge(s.Obj, a)}
		case VPtr:
			return VBool{Ge(s.L.Ref, a)}
		case VMap:
			return VBool{Ge(s.Ref, a)}
		case VOpaque: // value of a call that did not happen on this path
			return VBool{c.e.fresh("nocall", BoolS)}
		}
		c.fail("fresh of %T", v)
	case "allocated": // object existed before the call
		v := c.eval(n.Args[0])
		a := c.oldAlloc
		if a == nil {
			a = c.st.alloc0
		}
		switch s := v.(type) {
		case VSlice:
			return VBool{Lt(s.Obj, a)}
		}
		c.fail("allocated of %T", v)
	case "disjoint": // two element ranges do not overlap
		a, okA := c.eval(n.Args[0]).(VSlice)
		b, okB := c.eval(n.Args[1]).(VSlice)
		if !okA || !okB {
			c.fail("disjoint needs two slices")
		}
		return VBool{Or(Ne(a.Obj, b.Obj), Le(Add(a.Off, a.Len), b.Off), Le(Add(b.Off, b.Len), a.Off), Eq(a.Len, Zero), Eq(b.Len, Zero))}
	case "mapUnchanged", "mapIsStore", "mapIsDelete":
		// two-state relations between a map now and in the old state (row equalities, no quantifiers)
		cur, ok1 := c.eval(n.Args[0]).(VMap)
		oc := c.sub()
		oc.heaps = c.oldHeaps
		old, ok2 := oc.eval(n.Args[0]).(VMap)
		if !ok1 || !ok2 {
			c.fail("%s needs a map", id.Name)
		}
		pn, vns := mapHeapNames(cur.K, cur.V)
		ls := leavesOf(cur.V)
		cs := []*Term{Eq(cur.Ref, old.Ref)}
		rowP1, rowP0 := c.heapRow(pn, HeapB, cur.Ref), oc.heapRow(pn, HeapB, old.Ref)
		switch id.Name {
		case "mapUnchanged":
			cs = append(cs, Eq(rowP1, rowP0))
			for i, l := range ls {
				cs = append(cs, Eq(c.heapRow(vns[i], heapSort(l.sort, true), cur.Ref), oc.heapRow(vns[i], heapSort(l.sort, true), old.Ref)))
			}
		case "mapIsStore":
			kt := keyTerm(c.eval(n.Args[1]))
			fl := Flatten(c.eval(n.Args[2]))
			cs = append(cs, Eq(rowP1, Store(rowP0, kt, True)))
			for i, l := range ls {
				cs = append(cs, Eq(c.heapRow(vns[i], heapSort(l.sort, true), cur.Ref), Store(oc.heapRow(vns[i], heapSort(l.sort, true), old.Ref), kt, fl[i])))
			}
		case "mapIsDelete":
			kt := keyTerm(c.eval(n.Args[1]))
			cs = append(cs, Eq(rowP1, Store(rowP0, kt, False)))
			for i, l := range ls {
				r1 := c.heapRow(vns[i], heapSort(l.sort, true), cur.Ref)
				cs = append(cs, Eq(r1, Store(oc.heapRow(vns[i], heapSort(l.sort, true), old.Ref), kt, Select(r1, kt))))
			}
		}
		return VBool{And(cs...)}
	case "distinctObjects": // the two slices live in different backing arrays (or one of them is empty)
		a, okA := c.eval(n.Args[0]).(VSlice)
		b, okB := c.eval(n.Args[1]).(VSlice)
		if !okA || !okB {
			c.fail("distinctObjects needs two slices")
		}
		return VBool{Or(Ne(a.Obj, b.Obj), Eq(a.Cap, Zero), Eq(b.Cap, Zero))}
	case "present":
		m := c.eval(n.Args[0]).(VMap)
		_, p := c.mapGet(m, c.eval(n.Args[1]))
		return VBool{p}
	case "bytesEq", "bytesEqOld":
		// contents of two byte ranges are equal; with bytesEqOld the second is read in the old heap.
		// Quantification is over the absolute element index so that triggers match.
		a, b := c.eval(n.Args[0]), c.eval(n.Args[1])
		if _, ok := a.(VOpaque); ok {
			return VBool{c.e.fresh("nocall", BoolS)}
		}
		if _, ok := b.(VOpaque); ok {
			return VBool{c.e.fresh("nocall", BoolS)}
		}
		bc := c
		if id.Name == "bytesEqOld" {
			bc = c.sub()
			bc.heaps = c.oldHeaps
		}
		ra, oa, la := c.byteReaderAbs(a)
		rb, ob, lb := bc.byteReaderAbs(b)
		i := Var(fmt.Sprintf("k%d_a", len(c.bound)), IntS)
		j := Var(fmt.Sprintf("k%d_b", len(c.bound)), IntS)
		f1 := Forall([]*Term{i}, [][]*Term{{ra(i)}}, Implies(And(Le(oa, i), Lt(i, Add(oa, la))), Eq(ra(i), rb(Add(ob, Sub(i, oa))))))
		f2 := Forall([]*Term{j}, [][]*Term{{rb(j)}}, Implies(And(Le(ob, j), Lt(j, Add(ob, lb))), Eq(rb(j), ra(Add(oa, Sub(j, ob))))))
		if c.goal {
			return VBool{And(Eq(la, lb), f1)} // f2 is the same statement re-indexed
		}
		return VBool{And(Eq(la, lb), f1, f2)}
	case "called", "notCalled", "callCount":
		name := n.Args[0].(*EIdent).Name
		cnt := 0
		for _, cr := range c.st.calls {
			if cr.target == name {
				cnt++
			}
		}
		switch id.Name {
		case "called":
			return VBool{BoolT(cnt > 0)}
		case "notCalled":
			return VBool{BoolT(cnt == 0)}
		}
		return VInt{Num(int64(cnt))}
	case "callArg", "callRes": // callArg(f, n, i): i-th argument / result of the n-th call of function parameter f
		name := n.Args[0].(*EIdent).Name
		nth := c.evalInt(n.Args[1])
		ith := c.evalInt(n.Args[2])
		if !nth.IsConst() || !ith.IsConst() {
			c.fail("%s needs constant indices", id.Name)
		}
		k := 0
		for _, cr := range c.st.calls {
			if cr.target != name {
				continue
			}
			if int64(k) == nth.N.Int64() {
				vs := cr.args
				if id.Name == "callRes" {
					vs = cr.res
				}
				if int(ith.N.Int64()) >= len(vs) {
					c.fail("%s: index out of range", id.Name)
				}
				return vs[ith.N.Int64()]
			}
			k++
		}
		// no such call on this path: an arbitrary value (clauses guard with callCount)
		return VOpaque{Id: c.e.fresh("nocall", IntS)}
	case "atomicLoad": // current value of an atomic variable given as a field expression
		l, t, ok := c.lvalue(n.Args[0])
		if !ok {
			c.fail("atomicLoad needs a field expression")
		}
		cell, ct := atomicCell(l, t)
		v := c.loadLoc(cell)
		tn := ""
		if nt, ok := t.(*types.Named); ok {
			tn = nt.Obj().Name()
		}
		switch tn {
		case "Time":
			iv := v.(VIface)
			tt := c.e.lookupTimeType()
			return VTime{Ite(Eq(iv.Tag, Num(int64(c.e.typeTag(tt)))), iv.Data, Zero)}
		case "Bool":
			return VBool{Ne(v.(VInt).T, Zero)}
		}
		_ = ct
		return v
	case "asTime": // the time.Time held by an interface value (zero time when it holds something else or nothing)
		iv, ok := c.eval(n.Args[0]).(VIface)
		if !ok {
			c.fail("asTime needs an interface value")
		}
		tt := c.e.lookupTimeType()
		return VTime{Ite(Eq(iv.Tag, Num(int64(c.e.typeTag(tt)))), iv.Data, Zero)}
	case "closed": // the channel has been closed (monotone: once true it stays true)
		ch, ok := c.eval(n.Args[0]).(VChan)
		if !ok {
			c.fail("closed needs a channel")
		}
		return VBool{Select(c.heap(chanHeap, RowB), ch.Id)}
	case "visited": // visited(k): key identity k has already been yielded by the (only) map iteration of this function
		var name string
		for hn := range c.heaps {
			if strings.HasPrefix(hn, "RV$") {
				if name != "" && name != hn {
					c.fail("visited: more than one map iteration in this function")
				}
				name = hn
			}
		}
		if name == "" {
			// before the iteration started nothing has been visited
			return VBool{False}
		}
		return VBool{Select(c.heap(name, RowB), c.evalInt(n.Args[0]))}
	case "keyId": // identity of the map key a string obtained from a map iteration stands for
		sv, ok := c.eval(n.Args[0]).(VString)
		if !ok {
			c.fail("keyId needs a string")
		}
		return VInt{strKeyId(sv)}
	case "keyString": // the text of the string key with identity k (string-keyed maps are only iterated, never indexed)
		k := c.evalInt(n.Args[0])
		return VString{App("mapkey$obj", IntS, k), Zero, App("mapkey$len", IntS, k)}
	case "payload": // scalar stored in an interface value (the dynamic value of an int32 boxed into interface{})
		iv, ok := c.eval(n.Args[0]).(VIface)
		if !ok {
			c.fail("payload needs an interface value")
		}
		return VInt{iv.Data}
	case "itoa": // the string strconv.Itoa(x)
		return itoaString(c.evalInt(n.Args[0]))
	case "callsTotal": // number of calls logged so far (positions are 0 .. callsTotal()-1)
		return VInt{Num(int64(len(c.st.calls)))}
	case "callFn": // callFn(f, n): the function value invoked by the n-th call logged under f (opaque calls)
		name := n.Args[0].(*EIdent).Name
		nth := c.evalInt(n.Args[1])
		if !nth.IsConst() {
			c.fail("callFn needs a constant index")
		}
		k := 0
		for _, cr := range c.st.calls {
			if cr.target != name {
				continue
			}
			if int64(k) == nth.N.Int64() && cr.fn != nil {
				return cr.fn
			}
			k++
		}
		return VOpaque{Id: c.e.fresh("nocall", IntS)}
	case "callSeq": // callSeq(f, n): position of the n-th call of f in the sequence of calls made (-1: no such call)
		name := n.Args[0].(*EIdent).Name
		nth := c.evalInt(n.Args[1])
		if !nth.IsConst() {
			c.fail("callSeq needs a constant index")
		}
		k := 0
		for i, cr := range c.st.calls {
			if cr.target != name {
				continue
			}
			if int64(k) == nth.N.Int64() {
				return VInt{Num(int64(i))}
			}
			k++
		}
		return VInt{Num(-1)}
	case "isErr": // err is some non-nil error
		return VBool{Ne(c.eval(n.Args[0]).(VErr).Id, Zero)}
	}
	// spec functions
	var sf *SpecFunc
	if c.pkg != nil {
		if ps := c.e.Specs[c.pkg]; ps != nil {
			sf = ps.Specs[id.Name]
		}
	}
	if sf == nil && c.e.Std != nil {
		sf = c.e.Std.Specs[id.Name]
	}
	if sf == nil {
		// spec functions of imported packages
		for p, ps := range c.e.Specs {
			if p != c.pkg {
				if f := ps.Specs[id.Name]; f != nil {
					sf = f
					sub := c.sub()
					sub.pkg = p
					return sub.applySpec(sf, n.Args, c)
				}
			}
		}
		c.fail("unknown function %q", id.Name)
	}
	return c.applySpec(sf, n.Args, c)
}

func (c *specCtx) byteReader(v Val) (func(i *Term) *Term, *Term) {
	switch s := v.(type) {
	case VSlice:
		row := c.heapRow(elemHeapName(s.Elem, ""), HeapI, s.Obj)
		return func(i *Term) *Term { return Select(row, Add(s.Off, i)) }, s.Len
	case VString:
		row := c.heapRow(strHeap, HeapI, s.Obj)
		return func(i *Term) *Term { return Select(row, Add(s.Off, i)) }, s.Len
	}
	c.fail("bytes expected, got %T", v)
	return nil, nil
}

// byteReaderAbs reads by absolute element index; returns reader, offset and length.
func (c *specCtx) byteReaderAbs(v Val) (func(i *Term) *Term, *Term, *Term) {
	switch s := v.(type) {
	case VSlice:
		row := c.heapRow(elemHeapName(s.Elem, ""), HeapI, s.Obj)
		return func(i *Term) *Term { return Select(row, i) }, s.Off, s.Len
	case VString:
		row := c.heapRow(strHeap, HeapI, s.Obj)
		return func(i *Term) *Term { return Select(row, i) }, s.Off, s.Len
	}
	c.fail("bytes expected, got %T", v)
	return nil, nil, nil
}

func retSort(r string) *Sort {
	if strings.TrimSpace(r) == "bool" {
		return BoolS
	}
	return IntS
}

func hasBound(ts []*Term, bound map[string]bool) bool {
	if len(bound) == 0 {
		return false
	}
	found := false
	for _, t := range ts {
		Walk(t, func(x *Term) {
			if x.Op == "var" && bound[x.Name] {
				found = true
			}
		})
	}
	return found
}

// applySpec applies a spec function; argCtx evaluates the arguments (caller's context).
func (c *specCtx) applySpec(sf *SpecFunc, args []Expr, argCtx *specCtx) Val {
	if len(args) != len(sf.Params) {
		c.fail("spec function %s: %d arguments expected", sf.Name, len(sf.Params))
	}
	vals := make([]Val, len(args))
	for i, a := range args {
		vals[i] = argCtx.eval(a)
	}
	return c.applySpecVals(sf, vals)
}

func (c *specCtx) bodyCtx(sf *SpecFunc, vals []Val) *specCtx {
	sub := c.sub()
	sub.env = map[string]Val{}
	for i, p := range sf.Params {
		sub.env[p.Name] = vals[i]
	}
	sub.fr = nil
	sub.iter = nil
	return sub
}

func (c *specCtx) applySpecVals(sf *SpecFunc, vals []Val) Val {
	if sf.Uninterpreted {
		var ts []*Term
		for _, v := range vals {
			ts = append(ts, Flatten(v)...)
		}
		if retSort(sf.Ret) == BoolS {
			return VBool{App("uf$"+sf.Name, BoolS, ts...)}
		}
		return VInt{App("uf$"+sf.Name, IntS, ts...)}
	}
	if !sf.Rec {
		v := c.bodyCtx(sf, vals).eval(sf.Body)
		// name large ground integer results (let-naming): keeps offsets small and syntactically shared
		if iv, ok := v.(VInt); ok && !iv.T.IsConst() && iv.T.Op != "var" && len(iv.T.Key()) > 160 && !hasBound([]*Term{iv.T}, c.bound) && !c.noUnfold && !isIteConstTree(iv.T) {
			k := "name:" + iv.T.Key()
			if c.e.named == nil {
				c.e.named = map[string]*Term{}
			}
			nm, ok := c.e.named[k]
			if !ok {
				nm = c.e.fresh("sv$"+sf.Name, IntS)
				c.e.named[k] = nm
			}
			c.st.assume(Eq(nm, iv.T))
			return VInt{nm}
		}
		return v
	}
	objOf := func(v Val) *Term {
		switch x := v.(type) {
		case VSlice:
			return x.Obj
		case VString:
			return x.Obj
		case VMap:
			return x.Ref
		}
		return nil
	}
	ri := c.e.specUF[sf.Name]
	if ri == nil {
		ri = &recInfo{computing: true, ret: retSort(sf.Ret)}
		c.e.specUF[sf.Name] = ri
		rec := c.bodyCtx(sf, vals)
		rec.record = map[string]*Sort{}
		rec.recRows = map[string]rowRec{}
		rec.noUnfold = true
		rec.eval(sf.Body)
		whole := map[string]*Sort{}
		for k, srt := range rec.record {
			whole[k] = srt
		}
		seen := map[string]bool{}
		for k, rr := range rec.recRows {
			name := k[:strings.Index(k, "|")]
			pidx := -1
			for i, v := range vals {
				if o := objOf(v); o != nil && o.Key() == rr.obj.Key() {
					pidx = i
				}
			}
			if pidx < 0 {
				whole[name] = rr.sort // read through something that is not a parameter: depend on the whole heap
				continue
			}
			dk := fmt.Sprintf("%s|%d", name, pidx)
			if !seen[dk] {
				seen[dk] = true
				ri.deps = append(ri.deps, recDep{name, rr.sort, pidx})
			}
		}
		for k, srt := range whole {
			ri.deps = append(ri.deps, recDep{k, srt, -1})
		}
		sort.Slice(ri.deps, func(i, j int) bool {
			if ri.deps[i].name != ri.deps[j].name {
				return ri.deps[i].name < ri.deps[j].name
			}
			return ri.deps[i].pidx < ri.deps[j].pidx
		})
		// a whole-heap dependency subsumes row dependencies on the same heap
		var ds []recDep
		for _, d := range ri.deps {
			if d.pidx >= 0 {
				if _, w := whole[d.name]; w {
					continue
				}
			}
			ds = append(ds, d)
		}
		ri.deps = ds
		ri.computing = false
	}
	if ri.computing {
		if ri.ret == BoolS {
			return VBool{c.e.fresh("dummy", BoolS)}
		}
		return VInt{c.e.fresh("dummy", IntS)}
	}
	var targs []*Term
	for _, d := range ri.deps {
		if d.pidx >= 0 {
			o := objOf(vals[d.pidx])
			if o == nil {
				c.fail("rec spec function %s: argument %d has no object", sf.Name, d.pidx)
			}
			targs = append(targs, c.heapRow(d.name, d.sort, o))
		} else {
			targs = append(targs, c.heap(d.name, d.sort))
		}
	}
	for _, v := range vals {
		targs = append(targs, Flatten(v)...)
	}
	app := App("sf$"+sf.Name, ri.ret, targs...)
	if !c.noUnfold && !hasBound(targs, c.bound) {
		bc := c.bodyCtx(sf, vals)
		bc.noUnfold = true
		body := bc.eval(sf.Body)
		var bt *Term
		switch b := body.(type) {
		case VInt:
			bt = b.T
		case VBool:
			bt = b.T
		default:
			c.fail("rec spec function %s must return int or bool", sf.Name)
		}
		df := Eq(app, bt)
		if c.st.defFact == nil {
			c.st.defFact = map[string]bool{}
		}
		c.st.defFact[df.Key()] = true // shared (append-only) across forks: only used as a hint for premise selection
		c.st.assume(df)
	}
	if ri.ret == BoolS {
		return VBool{app}
	}
	return VInt{app}
}

// unfold adds the definitional instance of a rec spec function application.
func (c *specCtx) unfold(x Expr) {
	sub := c.sub()
	sub.noUnfold = false
	sub.eval(x)
}

// ---------- regions ----------

type region struct {
	kind string // "slice", "loc", "map"
	elem types.Type
	obj  *Term
	lo   *Term
	hi   *Term
	loc  *Loc
	m    VMap
}

func (c *specCtx) evalRegion(x Expr) region {
	// *p, p.f  => location; slice-valued => element range
	if u, ok := x.(*EUn); ok && u.Op == "*" {
		p, ok := c.eval(u.X).(VPtr)
		if !ok || p.L == nil {
			c.fail("modifies *p: p must be a non-nil pointer")
		}
		return region{kind: "loc", loc: p.L}
	}
	if _, ok := x.(*ESel); ok {
		if l, _, ok := c.lvalue(x); ok {
			// a field named in modifies means the field itself (for slice-typed fields: the header)
			return region{kind: "loc", loc: l}
		}
	}
	if id, ok := x.(*EIdent); ok && c.fr != nil {
		// a local cell (in-place closures / loop frames)
		for a, cell := range c.fr.cells {
			if a.Comment == id.Name {
				if _, isSlice := c.st.cellv[cell].(VSlice); !isSlice {
					return region{kind: "loc", loc: &Loc{Kind: LCell, Cell: cell, Base: cell.T}}
				}
			}
		}
	}
	v := c.eval(x)
	switch s := v.(type) {
	case VSlice:
		return region{kind: "slice", elem: s.Elem, obj: s.Obj, lo: s.Off, hi: Add(s.Off, s.Len)}
	case VMap:
		return region{kind: "map", m: s}
	}
	c.fail("unsupported modifies target %T", v)
	return region{}
}

func (c *specCtx) tryEval(x Expr) (v Val, ok bool) {
	defer func() {
		if r := recover(); r != nil {
			if _, is := r.(*SpecError); is {
				ok = false
				return
			}
			panic(r)
		}
	}()
	return c.eval(x), true
}

// contractOf instantiates the pre- or postconditions of a Go function's contract on explicit
// argument/result values: contract.F(params..., results...) / requiresOf.F(params...).
func (c *specCtx) contractOf(key string, args []Expr, preOnly bool) Val {
	var spec *FuncSpec
	var pkg *ssa.Package
	key = strings.ReplaceAll(key, "__", ".")
	for p, ps := range c.e.Specs {
		for k, fs := range ps.Funcs {
			kk := strings.NewReplacer("(", "", ")", "", "*", "").Replace(k)
			if (k == key || kk == key) && (p == c.pkg || spec == nil) {
				spec, pkg = fs, p
			}
		}
	}
	if spec == nil {
		c.fail("contract.%s: no such contract", key)
	}
	fn := LookupFunc(c.e.Prog, pkg, spec.Key)
	if fn == nil {
		c.fail("contract.%s: function not found", key)
	}
	var names []string
	for _, p := range fn.Params {
		names = append(names, p.Name())
	}
	if !preOnly {
		rn := spec.Results
		if len(rn) == 0 {
			rs := fn.Signature.Results()
			for i := 0; i < rs.Len(); i++ {
				rn = append(rn, rs.At(i).Name())
			}
		}
		names = append(names, rn...)
	}
	if len(args) != len(names) {
		c.fail("contract.%s expects %d arguments (%v), got %d", key, len(names), names, len(args))
	}
	sub := c.sub()
	sub.env = map[string]Val{}
	sub.pkg = pkg
	sub.fr = nil
	sub.iters = c.e.freshIters(c.st, key)
	for i, a := range args {
		sub.env[names[i]] = c.eval(a)
	}
	for _, w := range spec.Witness {
		sub.env[w.Name] = VInt{c.e.fresh(key+".w_"+w.Name, IntS)}
	}
	var cs []*Term
	if preOnly {
		for _, r := range spec.Requires {
			cs = append(cs, sub.evalBool(r.E))
		}
	} else {
		for _, en := range spec.Ensures {
			if en.Except != nil {
				cs = append(cs, Implies(Not(sub.evalBool(en.Except)), sub.evalBool(en.E)))
				continue
			}
			cs = append(cs, sub.evalBool(en.E))
		}
	}
	return VBool{And(cs...)}
}

// findIndexBy finds a sub-expression x[name] (index exactly the named variable).
func findIndexBy(e Expr, name string) *EIndex {
	switch n := e.(type) {
	case *EIndex:
		if id, ok := n.I.(*EIdent); ok && id.Name == name {
			return n
		}
		return findIndexBy(n.X, name)
	case *ESel:
		return findIndexBy(n.X, name)
	case *ECall:
		for _, a := range n.Args {
			if r := findIndexBy(a, name); r != nil {
				return r
			}
		}
	case *EUn:
		return findIndexBy(n.X, name)
	}
	return nil
}

// freshIters gives each "#nK" of an assumed contract instance its own existential (skolem) symbol.
func (e *Engine) freshIters(st *State, hint string) func(int) *Term {
	m := map[int]*Term{}
	return func(ord int) *Term {
		if t, ok := m[ord]; ok {
			return t
		}
		t := e.fresh(fmt.Sprintf("%s.n%d", hint, ord), IntS)
		st.assume(Ge(t, Zero))
		m[ord] = t
		return t
	}
}

// nilLike gives the nil value with the shape of v (nil slice, nil error, ...).
func nilLike(v Val) Val {
	fl := Flatten(v)
	z := make([]*Term, len(fl))
	for i, t := range fl {
		if t.S == BoolS {
			z[i] = False
		} else {
			z[i] = Zero
		}
	}
	return rebuildLike(v, z)
}

// lvalue resolves a field/deref/index expression to a location (and its type).
func (c *specCtx) lvalue(x Expr) (*Loc, types.Type, bool) {
	switch n := x.(type) {
	case *EUn:
		if n.Op == "*" {
			if v, ok := c.tryEval(n.X); ok {
				if p, ok := v.(VPtr); ok && p.L != nil {
					return p.L, p.Elem, true
				}
			}
		}
	case *ESel:
		// pointer base: p.f
		if v, ok := c.tryEval(n.X); ok {
			if p, ok := v.(VPtr); ok && p.L != nil {
				i, ft, ok := fieldIndex(p.Elem, n.Name)
				if !ok {
					return nil, nil, false
				}
				nl := *p.L
				nl.Path = append(append([]pathStep(nil), p.L.Path...), pathStep{Field: i})
				return &nl, ft, true
			}
		}
		// nested: (lvalue).f
		if bl, bt, ok := c.lvalue(n.X); ok {
			i, ft, ok := fieldIndex(bt, n.Name)
			if !ok {
				return nil, nil, false
			}
			nl := *bl
			nl.Path = append(append([]pathStep(nil), bl.Path...), pathStep{Field: i})
			return &nl, ft, true
		}
	}
	return nil, nil, false
}
