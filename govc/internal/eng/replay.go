package eng

import (
	"bytes"
	"context"
	"encoding/json"
	"fmt"
	"go/types"
	"math/big"
	"os"
	"os/exec"
	"path/filepath"
	"sort"
	"strconv"
	"strings"
	"time"

	"golang.org/x/tools/go/ssa"
)

// ---------- model queries ----------

// modelQuery asks a solver for the values of the given terms in a model of premises ∧ ¬goal ∧ pins.
func modelQuery(ob *Obligation, pins []*Term, terms []*Term, dir string) ([]*Term, bool) {
	if len(terms) == 0 {
		return nil, true
	}
	var b strings.Builder
	all := append(append(append([]*Term(nil), ob.Premises...), ob.Goal), pins...)
	all = append(all, terms...)
	b.WriteString("(set-option :produce-models true)\n(set-logic ALL)\n")
	b.WriteString(Decls(all))
	for _, p := range ob.Premises {
		b.WriteString("(assert " + p.Key() + ")\n")
	}
	b.WriteString("(assert (not " + ob.Goal.Key() + "))\n")
	for _, p := range pins {
		b.WriteString("(assert " + p.Key() + ")\n")
	}
	b.WriteString("(check-sat)\n(get-value (")
	for _, t := range terms {
		b.WriteString(t.Key() + " ")
	}
	b.WriteString("))\n")
	file := filepath.Join(dir, fmt.Sprintf("mq%d.smt2", time.Now().UnixNano()))
	os.WriteFile(file, []byte(b.String()), 0o644)
	defer os.Remove(file)
	for _, sv := range []string{"z3-new", "z3"} {
		ctx, cancel := context.WithTimeout(context.Background(), 25*time.Second)
		cmd := exec.CommandContext(ctx, sv, "-T:20", file)
		var out bytes.Buffer
		cmd.Stdout = &out
		cmd.Run()
		cancel()
		txt := out.String()
		first := strings.TrimSpace(strings.SplitN(txt, "\n", 2)[0])
		if first != "sat" && first != "unknown" {
			continue
		}
		rest := strings.TrimSpace(txt[len(first):])
		vals, ok := parseGetValue(rest, len(terms))
		if ok {
			return vals, true
		}
	}
	return nil, false
}

// parseGetValue parses "((t v) (t v) ...)" returning the v's as terms (ints / bools only).
func parseGetValue(s string, n int) ([]*Term, bool) {
	sx, _, ok := parseSexp(s, 0)
	if !ok || len(sx.kids) != n {
		return nil, false
	}
	var out []*Term
	for _, pair := range sx.kids {
		if len(pair.kids) != 2 {
			return nil, false
		}
		v, ok := sexpValue(pair.kids[1])
		if !ok {
			return nil, false
		}
		out = append(out, v)
	}
	return out, true
}

type sexp struct {
	atom string
	kids []*sexp
	list bool
}

func parseSexp(s string, i int) (*sexp, int, bool) {
	for i < len(s) && (s[i] == ' ' || s[i] == '\n' || s[i] == '\t' || s[i] == '\r') {
		i++
	}
	if i >= len(s) {
		return nil, i, false
	}
	if s[i] == '(' {
		n := &sexp{list: true}
		i++
		for {
			for i < len(s) && (s[i] == ' ' || s[i] == '\n' || s[i] == '\t' || s[i] == '\r') {
				i++
			}
			if i >= len(s) {
				return nil, i, false
			}
			if s[i] == ')' {
				return n, i + 1, true
			}
			k, j, ok := parseSexp(s, i)
			if !ok {
				return nil, j, false
			}
			n.kids = append(n.kids, k)
			i = j
		}
	}
	j := i
	if s[i] == '|' {
		j = i + 1
		for j < len(s) && s[j] != '|' {
			j++
		}
		j++
	} else {
		for j < len(s) && s[j] != ' ' && s[j] != '\n' && s[j] != ')' && s[j] != '(' && s[j] != '\t' && s[j] != '\r' {
			j++
		}
	}
	return &sexp{atom: s[i:j]}, j, true
}

func sexpValue(x *sexp) (*Term, bool) {
	if !x.list {
		switch x.atom {
		case "true":
			return True, true
		case "false":
			return False, true
		}
		n, ok := new(big.Int).SetString(x.atom, 10)
		if !ok {
			return nil, false
		}
		return NumB(n), true
	}
	if len(x.kids) == 2 && x.kids[0].atom == "-" {
		v, ok := sexpValue(x.kids[1])
		if !ok || !v.IsConst() {
			return nil, false
		}
		return NumB(new(big.Int).Neg(v.N)), true
	}
	return nil, false
}

// ---------- reification of inputs ----------

type reifier struct {
	e       *Engine
	ob      *Obligation
	dir     string
	pins    []*Term
	pkg     *types.Package
	imports map[string]string // path -> name
	decls   []string
	objs    map[string]*objInfo // element-type key + obj id
	ptrs    map[string]string
	err     error
	nq      int
	deadline time.Time // model queries stop after this instant (the violation is then reported without a replayed input)
}

type objInfo struct {
	name  string
	elem  types.Type
	size  int64
	elems map[int64]string
}

func (r *reifier) q(ts ...*Term) []*Term {
	var need []*Term
	for _, t := range ts {
		if !t.IsConst() && !t.IsTrue() && !t.IsFalse() {
			need = append(need, t)
		}
	}
	if !r.deadline.IsZero() && time.Now().After(r.deadline) {
		r.fail("replay time budget exhausted while asking the solver for input values")
		return nil
	}
	vals, ok := modelQuery(r.ob, r.pins, need, r.dir)
	r.nq++
	if !ok {
		r.fail("solver gave no usable model")
		return nil
	}
	out := make([]*Term, len(ts))
	j := 0
	for i, t := range ts {
		if t.IsConst() || t.IsTrue() || t.IsFalse() {
			out[i] = t
			continue
		}
		out[i] = vals[j]
		r.pins = append(r.pins, Eq(t, vals[j]))
		j++
	}
	return out
}

func (r *reifier) fail(msg string) {
	if r.err == nil {
		r.err = fmt.Errorf("%s", msg)
	}
	panic(r.err)
}

func (r *reifier) typeStr(t types.Type) string {
	return types.TypeString(t, func(p *types.Package) string {
		if p == r.pkg {
			return ""
		}
		r.imports[p.Path()] = p.Name()
		return p.Name()
	})
}

func (r *reifier) heap0(name string, s *Sort) *Term { return Var(name+"!0", s) }

func (r *reifier) value(v Val, t types.Type) string {
	switch x := v.(type) {
	case VInt:
		n := r.q(x.T)[0]
		return r.typeStr(t) + "(" + n.N.String() + ")"
	case VBool:
		b := r.q(x.T)[0]
		return strconv.FormatBool(b.IsTrue())
	case VTime:
		n := r.q(x.T)[0]
		r.imports["time"] = "time"
		return "time.Unix(0, " + n.N.String() + ")"
	case VErr:
		n := r.q(x.Id)[0]
		if n.N.Sign() == 0 {
			return "nil"
		}
		if name, ok := r.e.sentName[n.N.Int64()]; ok {
			i := strings.LastIndex(name, ".")
			pp, nm := name[:i], name[i+1:]
			if pp == r.pkg.Path() {
				return nm
			}
			base := pp[strings.LastIndex(pp, "/")+1:]
			r.imports[pp] = base
			return base + "." + nm
		}
		r.imports["errors"] = "errors"
		return `errors.New("replay")`
	case VString:
		vs := r.q(x.Obj, x.Off, x.Len)
		n := vs[2].N.Int64()
		if n > 1<<16 {
			r.fail("string too long for replay")
		}
		h := r.heap0(strHeap, HeapI)
		var ts []*Term
		for i := int64(0); i < n; i++ {
			ts = append(ts, Select(Select(h, vs[0]), Add(vs[1], Num(i))))
		}
		bs := make([]byte, n)
		if n > 0 {
			for i, c := range r.q(ts...) {
				bs[i] = byte(c.N.Int64())
			}
		}
		return strconv.Quote(string(bs))
	case VSlice:
		vs := r.q(x.Obj, x.Off, x.Len, x.Cap)
		if vs[0].N.Sign() == 0 {
			return "nil"
		}
		off, ln, cp := vs[1].N.Int64(), vs[2].N.Int64(), vs[3].N.Int64()
		if !vs[1].N.IsInt64() || !vs[3].N.IsInt64() || off+cp > 1<<17 {
			r.fail(fmt.Sprintf("slice too large for replay (off=%s cap=%s)", vs[1].N, vs[3].N))
		}
		key := typeName(x.Elem) + "#" + vs[0].N.String()
		oi := r.objs[key]
		if oi == nil {
			oi = &objInfo{name: fmt.Sprintf("obj%d", len(r.objs)), elem: x.Elem, elems: map[int64]string{}}
			r.objs[key] = oi
		}
		if off+cp > oi.size {
			oi.size = off + cp
		}
		// contents of the visible part
		et := x.Elem
		ls := leavesOf(et)
		for i := off; i < off+ln; i++ {
			if _, done := oi.elems[i]; done {
				continue
			}
			ts := make([]*Term, len(ls))
			for k, lf := range ls {
				ts[k] = Select(Select(r.heap0(elemHeapName(et, lf.path), heapSort(lf.sort, true)), vs[0]), Num(i))
			}
			ev, _ := Unflatten(et, ts)
			oi.elems[i] = "" // reserve (cycles)
			oi.elems[i] = r.value(ev, et)
		}
		return fmt.Sprintf("%s[%d:%d:%d]", oi.name, off, off+ln, off+cp)
	case VStruct:
		st, ok := under(t).(*types.Struct)
		if !ok {
			r.fail("array value in replay")
		}
		var fs []string
		for i, f := range x.F {
			if st.Field(i).Name() == "_" {
				continue
			}
			fs = append(fs, st.Field(i).Name()+": "+r.value(f, st.Field(i).Type()))
		}
		return r.typeStr(t) + "{" + strings.Join(fs, ", ") + "}"
	case VPtr:
		if x.L == nil {
			return "nil"
		}
		if x.L.Kind != LHeap || len(x.L.Path) != 0 {
			r.fail("interior pointer in replay")
		}
		ref := r.q(x.L.Ref)[0]
		if ref.N.Sign() == 0 {
			return "nil"
		}
		key := typeName(x.Elem) + "@" + ref.N.String()
		if n, ok := r.ptrs[key]; ok {
			return n
		}
		name := fmt.Sprintf("ptr%d", len(r.ptrs))
		r.ptrs[key] = name
		ls := leavesOf(x.Elem)
		ts := make([]*Term, len(ls))
		for k, lf := range ls {
			ts[k] = Select(r.heap0(ptrHeapName(x.Elem, lf.path), heapSort(lf.sort, false)), ref)
		}
		pv, _ := Unflatten(x.Elem, ts)
		init := r.value(pv, x.Elem)
		r.decls = append(r.decls, fmt.Sprintf("%s := new(%s)\n\t*%s = %s", name, r.typeStr(x.Elem), name, init))
		return name
	case VMap:
		ref := r.q(x.Ref)[0]
		if ref.N.Sign() == 0 {
			return "nil"
		}
		r.fail("map parameter in replay")
	}
	r.fail(fmt.Sprintf("cannot reify %T for replay", v))
	return ""
}

// ReplayOutcome is what running the real code on the model's input showed.
type ReplayOutcome struct {
	Attempted  bool     `json:"attempted"`
	Reproduced bool     `json:"reproduced"`
	Reason     string   `json:"reason"`
	Inputs     []string `json:"inputs,omitempty"`
	Observed   string   `json:"observed,omitempty"`
	Expected   string   `json:"expected,omitempty"`
	TestSource string   `json:"test_source,omitempty"`
	Command    string   `json:"command,omitempty"`
	Output     string   `json:"output,omitempty"`
}

// ReplayBudget bounds the time spent on turning one solver model into a concrete input.
var ReplayBudget = 60 * time.Second

func isSafetyKind(kind string) bool {
	for _, p := range []string{"bounds@", "nil@", "div0@", "neg@", "unreachable@", "assert@"} {
		if strings.HasPrefix(kind, p) {
			return true
		}
	}
	return false
}

// Replay builds concrete inputs from the solver model of a failed obligation, runs the real
// function in an injected in-package test (go test -overlay, nothing is written to the repo),
// and compares what happens with what the obligation demands.
func (e *Engine) Replay(ob *Obligation, repo string, scratch string) (out ReplayOutcome) {
	if ob.entry == nil || ob.entry.fn == nil {
		out.Reason = "obligation is not attached to a function entry (lemma): no executable input"
		return
	}
	fn := ob.entry.fn
	if fn.TypeParams().Len() > 0 || (fn.Signature.Recv() != nil && hasTypeParams(fn.Signature.Recv().Type())) {
		out.Reason = "generic function: replay harness not generated"
		return
	}
	r := &reifier{e: e, ob: ob, dir: scratch, pkg: fn.Pkg.Pkg, imports: map[string]string{}, objs: map[string]*objInfo{}, ptrs: map[string]string{},
		deadline: time.Now().Add(ReplayBudget)}
	var args []string
	func() {
		defer func() {
			if x := recover(); x != nil {
				if r.err == nil {
					if u, ok := x.(*Unsupported); ok {
						r.err = u
					} else {
						panic(x)
					}
				}
			}
		}()
		for i, p := range ob.entry.params {
			args = append(args, r.value(p, fn.Params[i].Type()))
		}
	}()
	if r.err != nil {
		out.Reason = "could not build a concrete input from the solver output: " + r.err.Error()
		return
	}
	out.Attempted = true
	// predicted results on this path (post obligations carry them)
	var predicted []string
	if len(ob.results) > 0 {
		func() {
			defer func() {
				if x := recover(); x != nil {
					predicted = nil
				}
			}()
			rs := fn.Signature.Results()
			for i, rv := range ob.results {
				predicted = append(predicted, r.render(rv, rs.At(i).Type()))
			}
		}()
	}
	// source
	var src strings.Builder
	sent := e.sentinelLiteral(fn.Pkg, r.imports)
	src.WriteString("package " + fn.Pkg.Pkg.Name() + "\n\nimport (\n\t\"fmt\"\n\t\"testing\"\n")
	r.imports["errors"] = "errors"
	var ips []string
	for p := range r.imports {
		if p != "fmt" && p != "testing" && p != fn.Pkg.Pkg.Path() {
			ips = append(ips, p)
		}
	}
	sort.Strings(ips)
	for _, p := range ips {
		src.WriteString("\t" + strconv.Quote(p) + "\n")
	}
	src.WriteString(")\n\nvar _ = errors.New\n\n")
	src.WriteString("func TestVerifReplay(t *testing.T) {\n")
	var objNames []string
	for k := range r.objs {
		objNames = append(objNames, k)
	}
	sort.Strings(objNames)
	// objects first declared, then filled (elements may refer to other objects)
	for _, k := range objNames {
		oi := r.objs[k]
		src.WriteString(fmt.Sprintf("\t%s := make([]%s, %d)\n", oi.name, r.typeStr(oi.elem), oi.size))
	}
	for _, k := range objNames {
		oi := r.objs[k]
		var idx []int64
		for i := range oi.elems {
			idx = append(idx, i)
		}
		sort.Slice(idx, func(a, b int) bool { return idx[a] < idx[b] })
		for _, i := range idx {
			src.WriteString(fmt.Sprintf("\t%s[%d] = %s\n", oi.name, i, oi.elems[i]))
		}
	}
	for _, d := range r.decls {
		src.WriteString("\t" + d + "\n")
	}
	for i, a := range args {
		src.WriteString(fmt.Sprintf("\tvar a%d %s = %s\n", i, r.typeStr(fn.Params[i].Type()), a))
		src.WriteString(fmt.Sprintf("\t_ = a%d\n", i))
		out.Inputs = append(out.Inputs, fmt.Sprintf("%s = %s", fn.Params[i].Name(), a))
	}
	call := ""
	var an []string
	for i := range args {
		an = append(an, fmt.Sprintf("a%d", i))
	}
	if fn.Signature.Recv() != nil {
		call = fmt.Sprintf("a0.%s(%s)", fn.Name(), strings.Join(an[1:], ", "))
	} else {
		call = fmt.Sprintf("%s(%s)", fn.Name(), strings.Join(an, ", "))
	}
	nres := fn.Signature.Results().Len()
	src.WriteString("\tdefer func() {\n\t\tif r := recover(); r != nil {\n\t\t\tfmt.Printf(\"VERIF-PANIC %v\\n\", r)\n\t\t}\n\t}()\n")
	if nres == 0 {
		src.WriteString("\t" + call + "\n\tfmt.Println(\"VERIF-RESULT\")\n")
	} else {
		var rn []string
		for i := 0; i < nres; i++ {
			rn = append(rn, fmt.Sprintf("r%d", i))
		}
		src.WriteString("\t" + strings.Join(rn, ", ") + " := " + call + "\n")
		src.WriteString("\tfmt.Print(\"VERIF-RESULT\")\n")
		for i := 0; i < nres; i++ {
			src.WriteString(fmt.Sprintf("\tfmt.Printf(\" | %%s\", verifRender(r%d))\n", i))
		}
		src.WriteString("\tfmt.Println()\n")
	}
	src.WriteString("}\n\n" + strings.Replace(renderHelper, "VERIF_SENTINELS", sent, 1))
	out.TestSource = src.String()
	// run through an overlay
	pkgDir := filepath.Join(repo, strings.TrimPrefix(strings.TrimPrefix(fn.Pkg.Pkg.Path(), ModPath), "/"))
	testFile := filepath.Join(scratch, "zz_verif_replay_test.go")
	os.WriteFile(testFile, []byte(out.TestSource), 0o644)
	ov := map[string]map[string]string{"Replace": {filepath.Join(pkgDir, "zz_verif_replay_test.go"): testFile}}
	ovb, _ := json.Marshal(ov)
	ovFile := filepath.Join(scratch, "overlay.json")
	os.WriteFile(ovFile, ovb, 0o644)
	ctx, cancel := context.WithTimeout(context.Background(), 180*time.Second)
	defer cancel()
	cmd := exec.CommandContext(ctx, "go", "test", "-overlay", ovFile, "-vet=off", "-count=1", "-timeout", "60s", "-run", "^TestVerifReplay$", "-v", ".")
	cmd.Dir = pkgDir
	var env []string
	for _, kv := range os.Environ() {
		if strings.HasPrefix(kv, "GOSUMDB=") || strings.HasPrefix(kv, "GOTOOLCHAIN=") || strings.HasPrefix(kv, "GOFLAGS=") {
			continue
		}
		env = append(env, kv)
	}
	cmd.Env = append(env, "GOFLAGS=-mod=mod", "GOPROXY=off")
	out.Command = "cd " + pkgDir + " && go test -overlay <overlay.json> -vet=off -count=1 -timeout 60s -run ^TestVerifReplay$ -v ."
	var buf bytes.Buffer
	cmd.Stdout = &buf
	cmd.Stderr = &buf
	cmd.Run()
	txt := buf.String()
	if len(txt) > 6000 {
		txt = txt[:6000]
	}
	out.Output = txt
	kind := ob.Kind
	for _, ln := range strings.Split(txt, "\n") {
		if strings.HasPrefix(ln, "VERIF-PANIC") {
			out.Observed = ln
			out.Reproduced = true
			out.Reason = "the real function panics on the input built from the solver's counterexample"
			return
		}
		if strings.HasPrefix(ln, "VERIF-RESULT") {
			out.Observed = ln
			if isSafetyKind(kind) {
				out.Reason = "the real function did not panic on this input (the obligation may fail only on other inputs)"
				return
			}
			if predicted != nil {
				exp := "VERIF-RESULT"
				for _, p := range predicted {
					exp += " | " + p
				}
				out.Expected = "results predicted by the verifier for the path on which the clause fails: " + exp
				if strings.TrimSpace(ln) == strings.TrimSpace(exp) {
					out.Reproduced = true
					out.Reason = "the real function returns exactly the results for which the solver showed the contract clause false"
				} else {
					out.Reason = "the real function's results differ from the verifier's prediction for this input"
				}
				return
			}
			out.Reason = "ran without panic; no result prediction available for this obligation kind"
			return
		}
	}
	if strings.Contains(txt, "panic: test timed out") {
		out.Observed = "timeout"
		out.Reproduced = strings.HasPrefix(kind, "variant")
		out.Reason = "the real function did not return within 60 s on this input"
		return
	}
	out.Reason = "replay harness did not produce a result line (build or run problem)"
	return
}

func hasTypeParams(t types.Type) bool {
	if p, ok := t.(*types.Pointer); ok {
		t = p.Elem()
	}
	if n, ok := t.(*types.Named); ok {
		return n.TypeParams().Len() > 0
	}
	return false
}

// render gives the canonical text of a predicted result (must agree with verifRender in the harness).
func (r *reifier) render(v Val, t types.Type) string {
	switch x := v.(type) {
	case VInt:
		return r.q(x.T)[0].N.String()
	case VBool:
		return strconv.FormatBool(r.q(x.T)[0].IsTrue())
	case VErr:
		n := r.q(x.Id)[0]
		if n.N.Sign() == 0 {
			return "err:nil"
		}
		if name, ok := r.e.sentName[n.N.Int64()]; ok {
			return "err:" + name[strings.LastIndex(name, ".")+1:]
		}
		return "err:other"
	case VSlice:
		vs := r.q(x.Obj, x.Len)
		if vs[0].N.Sign() == 0 {
			return "slice:nil"
		}
		return "slice:len=" + vs[1].N.String()
	case VString:
		return "string:len=" + r.q(x.Len)[0].N.String()
	}
	panic("unrenderable")
}

const renderHelper = `func verifRender(v interface{}) string {
	switch x := v.(type) {
	case nil:
		return "err:nil"
	case error:
		for _, s := range verifSentinels {
			if x == s.e {
				return "err:" + s.n
			}
		}
		return "err:other"
	case bool:
		return fmt.Sprint(x)
	case string:
		return fmt.Sprintf("string:len=%d", len(x))
	case []byte:
		if x == nil {
			return "slice:nil"
		}
		return fmt.Sprintf("slice:len=%d", len(x))
	}
	return fmt.Sprintf("%d", v)
}

type verifSentinel struct {
	n string
	e error
}

var verifSentinels = []verifSentinel{VERIF_SENTINELS}
`

// SentinelsFor lists the error sentinels visible from a package (for the harness).
func (e *Engine) sentinelLiteral(pkg *ssa.Package, imports map[string]string) string {
	var parts []string
	var ids []int64
	for id := range e.sentName {
		ids = append(ids, id)
	}
	sort.Slice(ids, func(i, j int) bool { return ids[i] < ids[j] })
	for _, id := range ids {
		name := e.sentName[id]
		i := strings.LastIndex(name, ".")
		pp, nm := name[:i], name[i+1:]
		if !types.NewVar(0, nil, nm, nil).Exported() && pp != pkg.Pkg.Path() {
			continue
		}
		q := nm
		if pp != pkg.Pkg.Path() {
			direct := false
			for _, imp := range pkg.Pkg.Imports() {
				if imp.Path() == pp {
					direct = true
				}
			}
			if !direct {
				continue
			}
			base := pp[strings.LastIndex(pp, "/")+1:]
			imports[pp] = base
			q = base + "." + nm
		}
		parts = append(parts, fmt.Sprintf("{%q, %s}", nm, q))
	}
	return strings.Join(parts, ", ")
}
