package eng

import (
	"fmt"
	"go/constant"
	"go/types"
	"strings"

	"golang.org/x/tools/go/ssa"
)

// errIs models errors.Is(err, target) over error ids: isA(e, t).
// Sentinels (errors.New at package level) are distinct constants that wrap nothing.
func (e *Engine) errIs(st *State, a, b *Term) *Term {
	if a.IsConst() && b.IsConst() {
		// both sentinels (or nil)
		if a.N.Sign() == 0 {
			return BoolT(b.N.Sign() == 0)
		}
		return BoolT(a.N.Cmp(b.N) == 0)
	}
	e.isAAxioms(st)
	t := App("isA", BoolS, a, b)
	// axioms instantiated for this pair
	st.assume(Implies(Eq(a, b), t))
	st.assume(Implies(Eq(a, Zero), Eq(t, Eq(b, Zero))))
	// an id in the sentinel range wraps nothing
	st.assume(Implies(And(Gt(a, Zero), Lt(a, Num(1<<20))), Eq(t, Eq(a, b))))
	return t
}

// isAAxioms: sentinel errors (ids below 2^20) and nil wrap nothing.
func (e *Engine) isAAxioms(st *State) {
	if st.factSet["isA:axioms"] {
		return
	}
	st.factSet["isA:axioms"] = true
	x, t := Var("isa_x", IntS), Var("isa_t", IntS)
	st.facts = append(st.facts, Forall([]*Term{x, t}, [][]*Term{{App("isA", BoolS, x, t)}},
		Implies(And(Ge(x, Zero), Lt(x, Num(1<<20))), Eq(App("isA", BoolS, x, t), Eq(x, t)))))
}

func (e *Engine) newErr(st *State, wraps []*Term) Val {
	e.isAAxioms(st)
	id := e.fresh("err", IntS)
	st.assume(Gt(id, Num(1<<20)))
	// isA(id, t) <=> t == id || isA(w, t) for wrapped w : stated for all t
	t := e.fresh("t", IntS)
	body := Eq(t, id)
	for _, w := range wraps {
		body = Or(body, And(Ne(w, Zero), App("isA", BoolS, w, t)))
	}
	st.assume(Forall([]*Term{t}, [][]*Term{{App("isA", BoolS, id, t)}}, Eq(App("isA", BoolS, id, t), body)))
	return VErr{id}
}

// intrinsic models a small set of library functions directly.
func (e *Engine) intrinsic(st *State, fr *Frame, x *ssa.Call, callee *ssa.Function, args []Val) ([]Val, bool) {
	name := callee.String()
	if o := callee.Origin(); o != nil {
		name = o.String()
	}
	if e.lockIntrinsic(st, fr, x, name, args) {
		return nil, true
	}
	if res, ok := e.atomicIntrinsic(st, fr, x, name, callee, args); ok {
		return res, true
	}
	switch name {
	case "errors.Is":
		a, b := args[0].(VErr), args[1].(VErr)
		return []Val{VBool{e.errIs(st, a.Id, b.Id)}}, true
	case "errors.New":
		return []Val{e.newErr(st, nil)}, true
	case "fmt.Errorf":
		// wrapped errors: arguments of type error when the format has %w
		var wraps []*Term
		format := ""
		if x != nil {
			if c, ok := x.Call.Args[0].(*ssa.Const); ok && c.Value != nil && c.Value.Kind() == constant.String {
				format = constant.StringVal(c.Value)
			}
		}
		if strings.Contains(format, "%w") {
			wraps = e.errArgsOfVariadic(st, fr, x)
		}
		e.Assumptions["fmt.Errorf: result is a fresh non-nil error wrapping exactly its %w arguments"] = true
		return []Val{e.newErr(st, wraps)}, true
	case "github.com/plgd-dev/go-coap/v3/pkg/math.SafeCastTo":
		// assumed contract (reflect/unsafe inside): value preserved iff representable in T
		e.Assumptions["assumed contract: pkg/math.SafeCastTo (uses reflect/unsafe): returns (T(from), nil) iff from is representable in T, else (0, non-nil error)"] = true
		sig := callee.Signature
		ti, ok1 := intOf(sig.Results().At(0).Type())
		if !ok1 {
			return nil, false
		}
		from := args[0].(VInt).T
		fits := ti.inRange(from)
		er := e.newErr(st, nil).(VErr)
		return []Val{VInt{Ite(fits, from, Zero)}, VErr{Ite(fits, Zero, er.Id)}}, true
	case "strconv.Itoa":
		e.Assumptions["strconv.Itoa: an injective function of the integer (contents of the decimal string not modelled)"] = true
		return []Val{itoaString(args[0].(VInt).T)}, true
	case "time.Now":
		t := e.fresh("now", IntS)
		st.calls = append(st.calls, callRec{target: "Now", res: []Val{VTime{t}}, seq: len(st.calls)})
		return []Val{VTime{t}}, true
	case "(time.Time).Sub":
		a, b := args[0].(VTime).T, args[1].(VTime).T
		e.Assumptions["time.Time modelled as an integer instant; Sub saturation ignored (difference assumed to fit int64)"] = true
		return []Val{VInt{Sub(a, b)}}, true
	case "(time.Time).Add":
		return []Val{VTime{Add(args[0].(VTime).T, args[1].(VInt).T)}}, true
	case "(time.Time).After":
		return []Val{VBool{Gt(args[0].(VTime).T, args[1].(VTime).T)}}, true
	case "(time.Time).Before":
		return []Val{VBool{Lt(args[0].(VTime).T, args[1].(VTime).T)}}, true
	case "(time.Time).IsZero":
		return []Val{VBool{Eq(args[0].(VTime).T, Zero)}}, true
	case "(time.Time).Equal":
		return []Val{VBool{Eq(args[0].(VTime).T, args[1].(VTime).T)}}, true
	}
	return nil, false
}

// errArgsOfVariadic finds error-typed values stored into the variadic slice of a fmt.Errorf call.
func (e *Engine) errArgsOfVariadic(st *State, fr *Frame, x *ssa.Call) []*Term {
	var out []*Term
	if x == nil || len(x.Call.Args) < 2 {
		return nil
	}
	sl, ok := x.Call.Args[1].(*ssa.Slice)
	if !ok {
		return nil
	}
	arr, ok := sl.X.(*ssa.Alloc)
	if !ok {
		return nil
	}
	for _, r := range *arr.Referrers() {
		ia, ok := r.(*ssa.IndexAddr)
		if !ok {
			continue
		}
		for _, r2 := range *ia.Referrers() {
			s, ok := r2.(*ssa.Store)
			if !ok {
				continue
			}
			v := s.Val
			if mi, ok := v.(*ssa.MakeInterface); ok {
				v = mi.X
			}
			if ci, ok := v.(*ssa.ChangeInterface); ok {
				v = ci.X
			}
			if isErrorType(v.Type()) {
				if ev, ok := fr.regs[v].(VErr); ok {
					out = append(out, ev.Id)
				}
			}
		}
	}
	return out
}

// ---------- package-level variables ----------

type globalState struct {
	vals  map[*ssa.Global]Val
	facts []*Term
	heaps map[string]*Term
	alloc int64
	bad   map[*ssa.Global]string
}

// globalValue gives the value of a package-level variable as established by the package
// initialiser, provided the variable is never assigned elsewhere (checked syntactically).
func (e *Engine) globalValue(st *State, g *ssa.Global) Val {
	t := g.Type().(*types.Pointer).Elem()
	if isErrorType(t) {
		if id, ok := e.sentinelID(g); ok {
			return VErr{Num(id)}
		}
	}
	gs := e.initState(g.Pkg)
	if v, ok := gs.vals[g]; ok {
		if why := e.globalMutated(g); why != "" {
			panic(unsupported("package-level variable " + g.Name() + " is modified outside init: " + why))
		}
		// bring in the facts about constant objects (contents of literal tables)
		st.assume(gs.facts...)
		if m, ok := v.(VMap); ok && m.Conc != nil {
			// a literal table: describe its contents in the map heaps at its constant reference
			e.tableFacts(st, m)
			m.Conc = nil
			v = m
		}
		e.Assumptions["package-level table "+g.Pkg.Pkg.Name()+"."+g.Name()+" is immutable after init (checked: no store outside init in its package; exported tables could be modified by other packages)"] = true
		return v
	}
	if why, ok := gs.bad[g]; ok {
		panic(unsupported("package-level variable " + g.Name() + ": " + why))
	}
	// unknown initial value: fully symbolic
	return e.freshVal(st, t, "g_"+g.Name())
}

// sentinelID: package-level `var ErrX = errors.New(...)` never reassigned.
func (e *Engine) sentinelID(g *ssa.Global) (int64, bool) {
	if id, ok := e.sentinel[g]; ok {
		return id, id > 0
	}
	e.sentinel[g] = 0
	init := g.Pkg.Func("init")
	if init == nil {
		return 0, false
	}
	found := false
	for _, b := range init.Blocks {
		for _, in := range b.Instrs {
			if s, ok := in.(*ssa.Store); ok && s.Addr == g {
				if c, ok := s.Val.(*ssa.Call); ok {
					if f := c.Call.StaticCallee(); f != nil && f.String() == "errors.New" {
						found = true
					}
				}
			}
		}
	}
	if !found || e.globalMutated(g) != "" {
		return 0, false
	}
	// stable id: order of name within package + package hash
	id := int64(len(e.sentName) + 1)
	e.sentinel[g] = id
	e.sentName[id] = g.Pkg.Pkg.Path() + "." + g.Name()
	return id, true
}

var mutatedCache = map[*ssa.Global]string{}

func (e *Engine) globalMutated(g *ssa.Global) string {
	if r, ok := mutatedCache[g]; ok {
		return r
	}
	res := ""
	for _, m := range g.Pkg.Members {
		fn, ok := m.(*ssa.Function)
		if !ok {
			continue
		}
		res = mutIn(fn, g)
		if res != "" {
			break
		}
	}
	if res == "" {
		// methods
		for _, m := range g.Pkg.Members {
			if tn, ok := m.(*ssa.Type); ok {
				for _, t := range []types.Type{tn.Type(), types.NewPointer(tn.Type())} {
					ms := e.Prog.MethodSets.MethodSet(t)
					for i := 0; i < ms.Len(); i++ {
						if f := e.Prog.MethodValue(ms.At(i)); f != nil && f.Pkg == g.Pkg {
							if r := mutIn(f, g); r != "" {
								res = r
							}
						}
					}
				}
			}
		}
	}
	mutatedCache[g] = res
	return res
}

func mutIn(fn *ssa.Function, g *ssa.Global) string {
	if fn.Name() == "init" {
		return ""
	}
	var visit func(f *ssa.Function) string
	visit = func(f *ssa.Function) string {
		for _, b := range f.Blocks {
			for _, in := range b.Instrs {
				switch x := in.(type) {
				case *ssa.Store:
					if x.Addr == g {
						return "assigned in " + f.String()
					}
				case *ssa.MapUpdate:
					if u, ok := x.Map.(*ssa.UnOp); ok && u.X == g {
						return "map updated in " + f.String()
					}
				case *ssa.IndexAddr:
					if u, ok := x.X.(*ssa.UnOp); ok && u.X == g {
						for _, r := range *x.Referrers() {
							if s, ok := r.(*ssa.Store); ok && s.Addr == x {
								return "element assigned in " + f.String()
							}
						}
					}
				}
			}
		}
		for _, af := range f.AnonFuncs {
			if r := visit(af); r != "" {
				return r
			}
		}
		return ""
	}
	return visit(fn)
}

// initState symbolically executes the composite-literal part of a package initialiser to
// obtain the values of table-like globals (maps / slices of constants).
func (e *Engine) initState(pkg *ssa.Package) *globalState {
	if gs, ok := e.globInit[pkg]; ok {
		return gs
	}
	gs := &globalState{vals: map[*ssa.Global]Val{}, bad: map[*ssa.Global]string{}}
	e.globInit[pkg] = gs
	init := pkg.Func("init")
	if init == nil {
		return gs
	}
	// Evaluate instruction by instruction in block order of the straight-line init body,
	// tolerating unsupported instructions (their results become unknown).
	st := &State{cellv: map[*Cell]Val{}, globals: map[*ssa.Global]Val{}, heaps: map[string]*Term{}, factSet: map[string]bool{},
		locks: map[string]string{}, touched: map[string]bool{}}
	e.nextConstObj += 100
	base := e.nextConstObj
	st.alloc = Num(base)
	st.alloc0 = st.alloc
	fr := &Frame{fn: init, regs: map[ssa.Value]Val{}, cells: map[*ssa.Alloc]*Cell{}, loops: map[*ssa.BasicBlock]*loopCtx{}, info: &fnInfo{loops: map[*ssa.BasicBlock]*loopInfo{}, heapAlloc: map[*ssa.Alloc]bool{}}}
	st.frames = []*Frame{fr}
	conc := map[string]*ConcMap{} // by map ref key
	saveFn := e.curFn
	saveObs := e.obs
	e.curFn = pkg.Pkg.Path() + ".init"
	e.initGS = gs
	for _, b := range init.Blocks {
		if b.Comment != "init.start" && b.Index != 1 && len(init.Blocks) > 3 {
			// only the straight-line start block carries initialisers; others are guards
		}
		fr.block = b
		for _, in := range b.Instrs {
			func() {
				defer func() {
					if r := recover(); r != nil {
						if v, ok := in.(ssa.Value); ok {
							delete(fr.regs, v)
						}
						if s, ok := in.(*ssa.Store); ok {
							if g, ok := s.Addr.(*ssa.Global); ok {
								gs.bad[g] = fmt.Sprint("initialiser not modelled: ", r)
							}
						}
					}
				}()
				switch x := in.(type) {
				case *ssa.If, *ssa.Jump, *ssa.Return, *ssa.RunDefers:
					return
				case *ssa.Call:
					if f := x.Call.StaticCallee(); f != nil && f.String() == "errors.New" {
						fr.regs[x] = VErr{e.fresh("initerr", IntS)}
					}
					return
				case *ssa.Store:
					if g, ok := x.Addr.(*ssa.Global); ok {
						v := e.val(st, fr, x.Val)
						if m, ok := v.(VMap); ok {
							m.Conc = conc[m.Ref.Key()]
							v = m
						}
						if pv, ok := v.(VPtr); ok && pv.L != nil && pv.L.Kind == LCell && len(pv.L.Path) == 0 {
							// `var X = new(T)` / `&T{...}`: a constant object (its contents are left unknown)
							v = VPtr{L: &Loc{Kind: LHeap, Ref: e.newObject(st), Base: pv.Elem}, Elem: pv.Elem}
						}
						gs.vals[g] = v
						return
					}
				case *ssa.MakeMap:
					mt := under(x.Type()).(*types.Map)
					ref := e.newObject(st)
					cm := &ConcMap{}
					conc[ref.Key()] = cm
					fr.regs[x] = VMap{Ref: ref, K: mt.Key(), V: mt.Elem(), Conc: cm}
					return
				case *ssa.MapUpdate:
					m := e.val(st, fr, x.Map).(VMap)
					m.Conc.Keys = append(m.Conc.Keys, e.val(st, fr, x.Key))
					m.Conc.Vals = append(m.Conc.Vals, e.val(st, fr, x.Value))
					return
				case *ssa.UnOp:
					if g, ok := x.X.(*ssa.Global); ok {
						if v, ok := gs.vals[g]; ok {
							fr.regs[x] = v
							return
						}
						if isErrorType(x.Type()) {
							if id, ok := e.sentinelID(g); ok {
								fr.regs[x] = VErr{Num(id)}
								return
							}
						}
						panic("global not yet initialised")
					}
				}
				e.step(st, fr, in, func(*State, []Val) {})
			}()
		}
	}
	e.curFn = saveFn
	e.obs = saveObs
	e.initGS = nil
	return gs
}

// tableFacts states the contents of a constant map (built by the package initialiser) as axioms
// over the initial map heaps, so that constant tables and map parameters are treated alike.
func (e *Engine) tableFacts(st *State, m VMap) {
	key := "table:" + m.Ref.Key()
	if st.factSet[key] {
		return
	}
	st.factSet[key] = true
	pn, vns := mapHeapNames(m.K, m.V)
	k := Var("tbl_k", IntS)
	ph := Var(pn+"!0", HeapB)
	e.heap(st, pn, HeapB)
	pres := False
	for i := len(m.Conc.Keys) - 1; i >= 0; i-- {
		pres = Or(Eq(k, keyTerm(m.Conc.Keys[i])), pres)
	}
	sel := Select(Select(ph, m.Ref), k)
	st.facts = append(st.facts, Forall([]*Term{k}, [][]*Term{{sel}}, Eq(sel, pres)))
	for li, l := range leavesOf(m.V) {
		vh := Var(vns[li]+"!0", heapSort(l.sort, true))
		e.heap(st, vns[li], heapSort(l.sort, true))
		var val *Term
		if l.sort == BoolS {
			val = False
		} else {
			val = Zero
		}
		for i := len(m.Conc.Keys) - 1; i >= 0; i-- {
			val = Ite(Eq(k, keyTerm(m.Conc.Keys[i])), Flatten(m.Conc.Vals[i])[li], val)
		}
		vs := Select(Select(vh, m.Ref), k)
		st.facts = append(st.facts, Forall([]*Term{k}, [][]*Term{{vs}}, Eq(vs, val)))
	}
}

// ---- atomics: modelled as sequentially consistent cells ------------------------------------------------

// atomicCell descends into the wrapper struct of an atomic type to the field that carries the value.
func atomicCell(l *Loc, t types.Type) (*Loc, types.Type) {
	for {
		st, ok := under(t).(*types.Struct)
		if !ok {
			return l, t
		}
		found := false
		for i := 0; i < st.NumFields(); i++ {
			if len(leavesOf(st.Field(i).Type())) > 0 {
				nl := *l
				nl.Path = append(append([]pathStep(nil), l.Path...), pathStep{Field: i})
				l, t = &nl, st.Field(i).Type()
				found = true
				break
			}
		}
		if !found {
			return l, t
		}
	}
}

func (e *Engine) atomicIntrinsic(st *State, fr *Frame, x *ssa.Call, name string, callee *ssa.Function, args []Val) ([]Val, bool) {
	var typ string
	switch {
	case strings.HasPrefix(name, "(*go.uber.org/atomic."):
		typ = name[len("(*go.uber.org/atomic."):]
	case strings.HasPrefix(name, "(*sync/atomic."):
		typ = name[len("(*sync/atomic."):]
	default:
		return nil, false
	}
	i := strings.Index(typ, ").")
	if i < 0 {
		return nil, false
	}
	method := typ[i+2:]
	typ = typ[:i]
	p, ok := args[0].(VPtr)
	if !ok || p.L == nil {
		return nil, false
	}
	e.Assumptions["atomic variables ("+name[2:strings.Index(name, ")")]+") are modelled as sequentially consistent cells; interference by other goroutines between two accesses in one function is not modelled"] = true
	cell, ct := atomicCell(p.L, p.Elem)
	isTime := typ == "Time"
	isBool := typ == "Bool"
	timeTag := Num(int64(e.typeTag(types.Universe.Lookup("int").Type()))) // placeholder, replaced below
	if isTime {
		if tt := e.lookupTimeType(); tt != nil {
			timeTag = Num(int64(e.typeTag(tt)))
		}
	}
	fromCell := func(v Val) Val {
		switch {
		case isTime:
			iv := v.(VIface)
			return VTime{Ite(Eq(iv.Tag, timeTag), iv.Data, Zero)}
		case isBool:
			return VBool{Ne(v.(VInt).T, Zero)}
		}
		return v
	}
	toCell := func(v Val) Val {
		switch {
		case isTime:
			return VIface{Tag: timeTag, Data: v.(VTime).T, T: ct}
		case isBool:
			return VInt{Ite(v.(VBool).T, One, Zero)}
		}
		return v
	}
	ii, isInt := intOf(ct)
	if isBool {
		// representation invariant of atomic.Bool: the underlying word is 0 or 1 (every method stores one of them)
		if cv, ok := e.load(st, cell).(VInt); ok {
			st.assume(Le(cv.T, One))
		}
	}
	switch method {
	case "Load":
		return []Val{fromCell(e.load(st, cell))}, true
	case "Store":
		e.store(st, cell, toCell(args[1]))
		return nil, true
	case "Swap":
		old := fromCell(e.load(st, cell))
		e.store(st, cell, toCell(args[1]))
		return []Val{old}, true
	case "Add", "Sub", "Inc", "Dec":
		if !isInt {
			return nil, false
		}
		cur := e.load(st, cell).(VInt).T
		var d *Term
		switch method {
		case "Add":
			d = args[1].(VInt).T
		case "Sub":
			d = Neg(args[1].(VInt).T)
		case "Inc":
			d = One
		case "Dec":
			d = Num(-1)
		}
		nv := ii.wrap(Add(cur, d))
		e.store(st, cell, VInt{nv})
		return []Val{VInt{nv}}, true
	case "CAS", "CompareAndSwap":
		cur := e.load(st, cell)
		oldc, newc := toCell(args[1]), toCell(args[2])
		fo, fc := Flatten(oldc), Flatten(cur)
		var eqs []*Term
		for k := range fo {
			eqs = append(eqs, Eq(fo[k], fc[k]))
		}
		cond := And(eqs...)
		e.store(st, cell, iteVal(cond, newc, cur))
		return []Val{VBool{cond}}, true
	}
	return nil, false
}

func (e *Engine) lookupTimeType() types.Type {
	for _, p := range e.Prog.AllPackages() {
		if p.Pkg.Path() == "time" {
			if o := p.Pkg.Scope().Lookup("Time"); o != nil {
				return o.Type()
			}
		}
	}
	return nil
}

// itoaString: the string strconv.Itoa(x) as an uninterpreted function of x (object id and length).
func itoaString(x *Term) VString {
	return VString{App("itoa$obj", IntS, x), Zero, App("itoa$len", IntS, x)}
}

// itoaEq: strconv.Itoa is injective, so two of its results are equal exactly when the integers are.
func itoaEq(a, b VString) (*Term, bool) {
	if a.Obj.Op == "app" && a.Obj.Name == "itoa$obj" && b.Obj.Op == "app" && b.Obj.Name == "itoa$obj" && isZeroT(a.Off) && isZeroT(b.Off) {
		return Eq(a.Obj.Args[0], b.Obj.Args[0]), true
	}
	return nil, false
}

func isZeroT(t *Term) bool { return t.IsConst() && t.N.Sign() == 0 }
