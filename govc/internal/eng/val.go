package eng

import (
	"fmt"
	"go/types"
	"math/big"
	"strings"

	"golang.org/x/tools/go/ssa"
)

// ---------- values ----------

type Val interface{}

type (
	VInt   struct{ T *Term }
	VBool  struct{ T *Term }
	VSlice struct {
		Obj, Off, Len, Cap *Term
		Elem               types.Type
	}
	VString struct{ Obj, Off, Len *Term }
	VStruct struct {
		T types.Type
		F []Val
	}
	VPtr struct {
		L    *Loc // nil => nil pointer literal
		Elem types.Type
	}
	VErr   struct{ Id *Term }
	VIface struct {
		Tag, Data *Term
		T         types.Type
	}
	VFunc struct {
		Fn   *ssa.Function
		Bind []Val
		Id   *Term
		Sig  *types.Signature
	}
	VMap struct {
		Ref  *Term
		K, V types.Type
		Conc *ConcMap
	}
	VChan  struct{ Id *Term }
	VTuple struct{ E []Val }
	VTime  struct{ T *Term } // time.Time as an integer instant (ns)
	VOpaque struct {        // value of a type we do not model; only copied around
		Id *Term
		T  types.Type
	}
)

type ConcMap struct {
	Keys []Val
	Vals []Val
}

// Loc kinds
const (
	LCell = iota
	LHeap
	LElem
	LGlobal
)

type pathStep struct {
	Field int   // field index, or -1 for array index
	Idx   *Term // array index
}

type Loc struct {
	Kind   int
	Cell   *Cell
	Ref    *Term      // LHeap
	Base   types.Type // LHeap: pointee type; LElem: element type; LCell: cell type
	Obj    *Term      // LElem
	Idx    *Term      // LElem (absolute index in the object)
	Global *ssa.Global
	Path   []pathStep
	ArrLen int64 // >0 when the location denotes a whole array object [N]T living in an element heap (Obj, elements 0..N)
}

type Cell struct {
	Name string
	T    types.Type
	id   int
}

// ---------- type helpers ----------

func under(t types.Type) types.Type { return t.Underlying() }

func isTimeTime(t types.Type) bool {
	if n, ok := t.(*types.Named); ok {
		o := n.Obj()
		return o.Pkg() != nil && o.Pkg().Path() == "time" && o.Name() == "Time"
	}
	return false
}

func isErrorType(t types.Type) bool {
	if n, ok := t.(*types.Named); ok && n.Obj().Pkg() == nil && n.Obj().Name() == "error" {
		return true
	}
	return false
}

type intInfo struct {
	bits   uint
	signed bool
}

func intOf(t types.Type) (intInfo, bool) {
	b, ok := under(t).(*types.Basic)
	if !ok {
		return intInfo{}, false
	}
	switch b.Kind() {
	case types.Int8:
		return intInfo{8, true}, true
	case types.Int16:
		return intInfo{16, true}, true
	case types.Int32:
		return intInfo{32, true}, true
	case types.Int64, types.Int, types.UntypedInt, types.UntypedRune:
		return intInfo{64, true}, true
	case types.Uint8:
		return intInfo{8, false}, true
	case types.Uint16:
		return intInfo{16, false}, true
	case types.Uint32:
		return intInfo{32, false}, true
	case types.Uint64, types.Uint, types.Uintptr:
		return intInfo{64, false}, true
	}
	return intInfo{}, false
}

func (ii intInfo) min() *big.Int {
	if !ii.signed {
		return big.NewInt(0)
	}
	return new(big.Int).Neg(new(big.Int).Lsh(big.NewInt(1), ii.bits-1))
}

func (ii intInfo) max() *big.Int {
	if !ii.signed {
		return new(big.Int).Sub(new(big.Int).Lsh(big.NewInt(1), ii.bits), big.NewInt(1))
	}
	return new(big.Int).Sub(new(big.Int).Lsh(big.NewInt(1), ii.bits-1), big.NewInt(1))
}

func (ii intInfo) inRange(t *Term) *Term {
	return And(Le(NumB(ii.min()), t), Le(t, NumB(ii.max())))
}

// wrap gives the exact two's-complement truncation of a mathematical integer.
func (ii intInfo) wrap(t *Term) *Term {
	if t.IsConst() {
		m := new(big.Int).Lsh(big.NewInt(1), ii.bits)
		v := new(big.Int).Mod(t.N, m)
		if ii.signed && v.Cmp(ii.max()) > 0 {
			v.Sub(v, m)
		}
		return NumB(v)
	}
	if !ii.signed {
		return Mod(t, Pow2(ii.bits))
	}
	h := Pow2(ii.bits - 1)
	return Sub(Mod(Add(t, h), Pow2(ii.bits)), h)
}

func typeName(t types.Type) string {
	t = types.Unalias(t) // an alias and the type it stands for share their heaps
	s := types.TypeString(t, func(p *types.Package) string { return p.Name() })
	var b strings.Builder
	for _, r := range s {
		switch {
		case r >= 'a' && r <= 'z', r >= 'A' && r <= 'Z', r >= '0' && r <= '9':
			b.WriteRune(r)
		case r == '*':
			b.WriteString("p_")
		case r == '[':
			b.WriteString("s_")
		case r == ']':
		default:
			b.WriteRune('_')
		}
	}
	return b.String()
}

// ---------- leaves (flattening of a type into scalar components) ----------

type leaf struct {
	path string
	sort *Sort
}

var leafCache = map[types.Type][]leaf{}

func leavesOf(t types.Type) []leaf {
	if l, ok := leafCache[t]; ok {
		return l
	}
	l := computeLeaves(t)
	leafCache[t] = l
	return l
}

func computeLeaves(t types.Type) []leaf {
	if _, ok := t.(*types.TypeParam); ok {
		return []leaf{{".tp", IntS}} // values of a type parameter: one uninterpreted scalar (only == is used)
	}
	if isTimeTime(t) {
		return []leaf{{".t", IntS}}
	}
	if isErrorType(t) {
		return []leaf{{".err", IntS}}
	}
	switch u := under(t).(type) {
	case *types.Basic:
		switch {
		case u.Info()&types.IsBoolean != 0:
			return []leaf{{"", BoolS}}
		case u.Info()&types.IsInteger != 0:
			return []leaf{{"", IntS}}
		case u.Info()&types.IsString != 0:
			return []leaf{{".sobj", IntS}, {".soff", IntS}, {".slen", IntS}}
		case u.Kind() == types.UnsafePointer:
			return []leaf{{".uptr", IntS}}
		case u.Info()&types.IsFloat != 0:
			return []leaf{{".flt", IntS}}
		}
	case *types.Slice:
		return []leaf{{".obj", IntS}, {".off", IntS}, {".len", IntS}, {".cap", IntS}}
	case *types.Struct:
		var out []leaf
		for i := 0; i < u.NumFields(); i++ {
			f := u.Field(i)
			for _, l := range leavesOf(f.Type()) {
				out = append(out, leaf{"." + f.Name() + l.path, l.sort})
			}
		}
		return out
	case *types.Pointer:
		return []leaf{{".ref", IntS}}
	case *types.Interface:
		return []leaf{{".tag", IntS}, {".data", IntS}}
	case *types.Map:
		return []leaf{{".map", IntS}}
	case *types.Signature:
		return []leaf{{".fn", IntS}}
	case *types.Chan:
		return []leaf{{".ch", IntS}}
	case *types.TypeParam:
		return []leaf{{".tp", IntS}}
	case *types.Array:
		// arrays embedded in heap structs are flattened element-wise when small
		if u.Len() <= 16 {
			var out []leaf
			for i := int64(0); i < u.Len(); i++ {
				for _, l := range leavesOf(u.Elem()) {
					out = append(out, leaf{fmt.Sprintf(".a%d%s", i, l.path), l.sort})
				}
			}
			return out
		}
	}
	return []leaf{{".opaque", IntS}}
}

// Flatten a value into its leaf terms (order of leavesOf(type)).
func Flatten(v Val) []*Term {
	switch x := v.(type) {
	case VInt:
		return []*Term{x.T}
	case VBool:
		return []*Term{x.T}
	case VSlice:
		return []*Term{x.Obj, x.Off, x.Len, x.Cap}
	case VString:
		return []*Term{x.Obj, x.Off, x.Len}
	case VStruct:
		var out []*Term
		for _, f := range x.F {
			out = append(out, Flatten(f)...)
		}
		return out
	case VPtr:
		if x.L == nil {
			return []*Term{Zero}
		}
		if x.L.Kind == LHeap && len(x.L.Path) == 0 {
			return []*Term{x.L.Ref}
		}
		panic(unsupported("pointer that is not a plain heap reference used as a scalar (interior or local pointer escapes)"))
	case VErr:
		return []*Term{x.Id}
	case VIface:
		return []*Term{x.Tag, x.Data}
	case VFunc:
		if x.Id != nil {
			return []*Term{x.Id}
		}
		panic(unsupported("static closure stored as data"))
	case VMap:
		return []*Term{x.Ref}
	case VChan:
		return []*Term{x.Id}
	case VTime:
		return []*Term{x.T}
	case VOpaque:
		return []*Term{x.Id}
	case VTuple:
		var out []*Term
		for _, f := range x.E {
			out = append(out, Flatten(f)...)
		}
		return out
	}
	panic(unsupported(fmt.Sprintf("flatten %T", v)))
}

// Unflatten rebuilds a value of type t from leaf terms; returns remaining terms.
func Unflatten(t types.Type, ts []*Term) (Val, []*Term) {
	if _, ok := t.(*types.TypeParam); ok {
		return VOpaque{ts[0], t}, ts[1:]
	}
	if isTimeTime(t) {
		return VTime{ts[0]}, ts[1:]
	}
	if isErrorType(t) {
		return VErr{ts[0]}, ts[1:]
	}
	switch u := under(t).(type) {
	case *types.Basic:
		switch {
		case u.Info()&types.IsBoolean != 0:
			return VBool{ts[0]}, ts[1:]
		case u.Info()&types.IsInteger != 0:
			return VInt{ts[0]}, ts[1:]
		case u.Info()&types.IsString != 0:
			return VString{ts[0], ts[1], ts[2]}, ts[3:]
		}
		return VOpaque{ts[0], t}, ts[1:]
	case *types.Slice:
		return VSlice{ts[0], ts[1], ts[2], ts[3], u.Elem()}, ts[4:]
	case *types.Struct:
		s := VStruct{T: t}
		for i := 0; i < u.NumFields(); i++ {
			var f Val
			f, ts = Unflatten(u.Field(i).Type(), ts)
			s.F = append(s.F, f)
		}
		return s, ts
	case *types.Pointer:
		return VPtr{L: &Loc{Kind: LHeap, Ref: ts[0], Base: u.Elem()}, Elem: u.Elem()}, ts[1:]
	case *types.Interface:
		return VIface{ts[0], ts[1], t}, ts[2:]
	case *types.Map:
		return VMap{Ref: ts[0], K: u.Key(), V: u.Elem()}, ts[1:]
	case *types.Signature:
		return VFunc{Id: ts[0], Sig: u}, ts[1:]
	case *types.Chan:
		return VChan{ts[0]}, ts[1:]
	case *types.TypeParam:
		return VOpaque{ts[0], t}, ts[1:]
	case *types.Array:
		if u.Len() <= 16 {
			s := VStruct{T: t}
			for i := int64(0); i < u.Len(); i++ {
				var f Val
				f, ts = Unflatten(u.Elem(), ts)
				s.F = append(s.F, f)
			}
			return s, ts
		}
	}
	return VOpaque{ts[0], t}, ts[1:]
}

// ZeroVal is the Go zero value of t.
func ZeroVal(t types.Type) Val {
	ls := leavesOf(t)
	ts := make([]*Term, len(ls))
	for i, l := range ls {
		if l.sort == BoolS {
			ts[i] = False
		} else {
			ts[i] = Zero
		}
	}
	v, _ := Unflatten(t, ts)
	if p, ok := v.(VPtr); ok {
		p.L = nil
		return p
	}
	return v
}

type Unsupported struct{ Msg string }

func (u *Unsupported) Error() string { return "unsupported: " + u.Msg }
func unsupported(msg string) *Unsupported { return &Unsupported{msg} }

// typeInvariant returns facts every Go value of type t satisfies (ranges, slice header sanity).
func typeInvariant(t types.Type, v Val, allocBound *Term) []*Term {
	var out []*Term
	switch x := v.(type) {
	case VInt:
		if ii, ok := intOf(t); ok {
			if !x.T.IsConst() {
				out = append(out, ii.inRange(x.T))
			}
		}
	case VSlice:
		if x.Obj.IsConst() && x.Len.IsConst() {
			return nil
		}
		out = append(out, Ge(x.Obj, Zero), Ge(x.Off, Zero), Ge(x.Len, Zero), Le(x.Len, x.Cap),
			Le(Add(x.Off, x.Cap), Pow2(48)),
			Implies(Eq(x.Obj, Zero), And(Eq(x.Cap, Zero), Eq(x.Off, Zero))))
		if allocBound != nil {
			out = append(out, Lt(x.Obj, allocBound))
		}
	case VString:
		if x.Obj.IsConst() && x.Len.IsConst() {
			return nil
		}
		out = append(out, Ge(x.Obj, Zero), Ge(x.Off, Zero), Ge(x.Len, Zero), Le(Add(x.Off, x.Len), Pow2(48)))
	case VStruct:
		st, ok := under(t).(*types.Struct)
		if ok {
			for i, f := range x.F {
				out = append(out, typeInvariant(st.Field(i).Type(), f, allocBound)...)
			}
		} else if at, ok := under(t).(*types.Array); ok {
			for _, f := range x.F {
				out = append(out, typeInvariant(at.Elem(), f, allocBound)...)
			}
		}
	case VPtr:
		if x.L != nil && x.L.Kind == LHeap && !x.L.Ref.IsConst() {
			out = append(out, Ge(x.L.Ref, Zero))
			if allocBound != nil {
				out = append(out, Lt(x.L.Ref, allocBound))
			}
		}
	case VErr:
		if !x.Id.IsConst() {
			out = append(out, Ge(x.Id, Zero))
		}
	case VIface:
		// the nil interface value carries no data word
		if !x.Tag.IsConst() {
			out = append(out, Ge(x.Tag, Zero), Implies(Eq(x.Tag, Zero), Eq(x.Data, Zero)))
		}
	case VMap:
		if !x.Ref.IsConst() {
			out = append(out, Ge(x.Ref, Zero))
		}
	}
	return out
}

func deref(t types.Type) types.Type {
	if p, ok := t.Underlying().(*types.Pointer); ok {
		return p.Elem()
	}
	return t
}
