package eng

import (
	"golang.org/x/tools/go/ssa"
)

// Lock discipline hooks (stage 4). With no `guarded` declarations they are no-ops.

func (e *Engine) lockCheck(st *State, fr *Frame, l *Loc, write bool, in ssa.Instruction) {}

func (e *Engine) lockCheckMap(st *State, fr *Frame, m ssa.Value, write bool, in ssa.Instruction) {}

func (e *Engine) lockAtReturn(st *State, fn *ssa.Function, spec *FuncSpec, ctx *specCtx) {}
