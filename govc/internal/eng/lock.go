package eng

import (
	"sort"
	"fmt"
	"go/types"
	"strings"

	"golang.org/x/tools/go/ssa"
)

// Lock-invariant reasoning for "one mutex guards some fields" (DESIGN section 3.3, Locks):
//   - acquiring the mutex havocs the guarded fields (other goroutines may have run);
//   - guarded fields may only be read with the mutex held (R or W) and written with W;
//   - every Lock..Unlock is a critical section with a pre and a post snapshot;
//   - `atomic ensures Q` is checked against the last critical section of each path, all earlier
//     ones must leave the guarded state unchanged (cs-pure); at return no mutex is held.
// For lock-based code this is a linearizability argument: the abstract operation takes effect at
// an instant inside a critical section between call and return.

type guardInfo struct {
	typ      *types.Named
	fields   [][]int // field paths (nested structs allowed: private.obsSequence)
	ftypes   []types.Type
	mutex    []int // field path of the mutex
	typeName string
}

// fieldPath resolves a dotted field name inside a struct type.
func fieldPath(t types.Type, dotted string) ([]int, types.Type, bool) {
	var path []int
	for _, name := range strings.Split(dotted, ".") {
		st, ok := t.Underlying().(*types.Struct)
		if !ok {
			return nil, nil, false
		}
		found := false
		for i := 0; i < st.NumFields(); i++ {
			if st.Field(i).Name() == name {
				path = append(path, i)
				t = st.Field(i).Type()
				found = true
				break
			}
		}
		if !found {
			return nil, nil, false
		}
	}
	return path, t, true
}

func pathHasPrefix(p []pathStep, pre []int) bool {
	if len(p) < len(pre) {
		return false
	}
	for i := range pre {
		if p[i].Field != pre[i] {
			return false
		}
	}
	return true
}

func (e *Engine) guardsFor(t types.Type) []guardInfo {
	t = types.Unalias(t) // type RequestsMap = coapSync.Map[...]
	n, ok := t.(*types.Named)
	if !ok {
		return nil
	}
	if o := n.Origin(); o != nil {
		n = o
	}
	var out []guardInfo
	for p, ps := range e.Specs {
		if n.Obj().Pkg() == nil || p.Pkg != n.Obj().Pkg() {
			continue
		}
		for _, g := range ps.Guards {
			if g.Type != n.Obj().Name() {
				continue
			}
			gi := guardInfo{typ: n, typeName: g.Type}
			if _, ok := n.Underlying().(*types.Struct); !ok {
				continue
			}
			if mp, _, ok := fieldPath(n, g.Mutex); ok {
				gi.mutex = mp
			}
			for _, f := range g.Fields {
				if fp, ft, ok := fieldPath(n, f); ok {
					gi.fields = append(gi.fields, fp)
					gi.ftypes = append(gi.ftypes, ft)
				}
			}
			if gi.mutex != nil {
				out = append(out, gi)
			}
		}
	}
	return out
}

func mutexKey(ref *Term, typeName string, field []int) string {
	return fmt.Sprintf("%s|%s|%v", ref.Key(), typeName, field)
}

// guardOfLoc: if l addresses a guarded field (or something inside it) returns the mutex key.
func (e *Engine) guardOfLoc(l *Loc) (string, bool) {
	if l == nil || l.Kind != LHeap || len(l.Path) == 0 {
		return "", false
	}
	for _, g := range e.guardsFor(l.Base) {
		for _, f := range g.fields {
			if pathHasPrefix(l.Path, f) {
				return mutexKey(l.Ref, g.typeName, g.mutex), true
			}
		}
	}
	return "", false
}

func (e *Engine) lockCheck(st *State, fr *Frame, l *Loc, write bool, in ssa.Instruction) {
	mk, ok := e.guardOfLoc(l)
	if !ok {
		return
	}
	mode := st.locks[mk]
	held := mode == "W" || (!write && mode == "R")
	what := "read"
	if write {
		what = "write"
	}
	okT := BoolT(held)
	if !held && l.Ref != nil {
		// an object allocated by this very call (constructor initialising its own result) is not shared yet
		okT = Ge(l.Ref, st.alloc0)
	}
	e.oblige(st, "lockset@"+what, "", e.ordinal(in), okT, "guarded field is accessed with its mutex held ("+what+"), or belongs to an object this call allocated", in.Pos())
}

// noteGuardedValue remembers that a map value was loaded from a guarded field.
func (e *Engine) noteGuardedValue(st *State, l *Loc, v Val) {
	mk, ok := e.guardOfLoc(l)
	if !ok {
		return
	}
	if m, ok := v.(VMap); ok {
		if st.guardedRefs == nil {
			st.guardedRefs = map[string]string{}
		}
		st.guardedRefs[m.Ref.Key()] = mk
	}
	if sl, ok := v.(VSlice); ok {
		// the backing array of a guarded slice is guarded state as well
		if st.guardedRefs == nil {
			st.guardedRefs = map[string]string{}
		}
		st.guardedRefs["slice:"+sl.Obj.Key()] = mk
	}
}

// guardedArrayWrite: obj is the backing array of a slice read from a guarded field while its mutex is write-held.
func (e *Engine) guardedArrayWrite(st *State, obj *Term) bool {
	if st.guardedRefs == nil {
		return false
	}
	mk, ok := st.guardedRefs["slice:"+obj.Key()]
	return ok && st.locks[mk] == "W"
}

func (e *Engine) lockCheckMap(st *State, fr *Frame, mv ssa.Value, write bool, in ssa.Instruction) {
	m, ok := e.val(st, fr, mv).(VMap)
	if !ok || st.guardedRefs == nil {
		return
	}
	mk, ok := st.guardedRefs[m.Ref.Key()]
	if !ok {
		return
	}
	mode := st.locks[mk]
	held := mode == "W" || (!write && mode == "R")
	what := "read"
	if write {
		what = "write"
	}
	e.oblige(st, "lockset@map"+what, "", e.ordinal(in), BoolT(held), "guarded map is accessed with its mutex held ("+what+")", in.Pos())
}

// havocGuarded forgets everything about the fields guarded by the mutex of object ref.
func (e *Engine) havocGuarded(st *State, ref *Term, g guardInfo) {
	for fi, f := range g.fields {
		var ps []pathStep
		for _, k := range f {
			ps = append(ps, pathStep{Field: k})
		}
		l := &Loc{Kind: LHeap, Ref: ref, Base: g.typ, Path: ps}
		// the base type used for heap naming must be the same type the code uses (possibly instantiated):
		ft := g.ftypes[fi]
		if _, t2, ok := fieldPathIdx(g.typ, f); ok {
			ft = t2
		}
		v := e.freshVal(st, ft, fmt.Sprintf("guarded_%v", f))
		keepRef := false
		if e.immutableField(g.typ, f) {
			// a guarded field that is also declared immutable (assigned only while its object is constructed):
			// the reference in the field survives the acquire, what it refers to is forgotten
			if cur, ok := e.load(st, l).(VMap); ok {
				v = cur
				keepRef = true
			}
		}
		if m, ok := v.(VMap); ok {
			st.assume(Gt(m.Ref, Zero)) // lock invariant: the guarded map is never nil
			if !st.published {
				// nothing this call allocated has been made reachable for anybody else yet: the map found
				// under the lock existed before the call
				st.assume(Lt(m.Ref, st.alloc0))
				e.Assumptions["a map found under a lock acquired before this call has stored, passed or sent anything is not an object this call allocated (objects are reachable for other goroutines only once published)"] = true
			}
			if st.guardedRefs == nil {
				st.guardedRefs = map[string]string{}
			}
			st.guardedRefs[m.Ref.Key()] = mutexKey(ref, g.typeName, g.mutex)
			// the map may be the same object as before, mutated in place: its contents are forgotten too
			pn, vns := mapHeapNames(m.K, m.V)
			ph := e.heap(st, pn, HeapB)
			e.setHeap(st, pn, Store(ph, m.Ref, e.fresh("guarded_present", RowB)))
			for i, lf := range leavesOf(m.V) {
				hs := heapSort(lf.sort, true)
				vh := e.heap(st, vns[i], hs)
				e.setHeap(st, vns[i], Store(vh, m.Ref, e.fresh("guarded_val", ArrS(IntS, lf.sort))))
			}
		}
		if !keepRef {
			e.store(st, l, v)
		}
	}
}

// immutableField: is the (top-level) field at path f of named type t declared `immutable T.f`? The syntactic
// check that nothing but constructors assigns it is run (and the assumption recorded) on first use.
func (e *Engine) immutableField(t *types.Named, f []int) bool {
	if len(f) != 1 {
		return false
	}
	n := t
	if o := n.Origin(); o != nil {
		n = o
	}
	stt, ok := n.Underlying().(*types.Struct)
	if !ok || f[0] >= stt.NumFields() {
		return false
	}
	for sp, ps := range e.Specs {
		if n.Obj().Pkg() == nil || sp.Pkg != n.Obj().Pkg() {
			continue
		}
		for _, im := range ps.Immutable {
			if im.Type == n.Obj().Name() && im.Field == stt.Field(f[0]).Name() {
				if why := e.immutableViolated(sp, im); why != "" {
					// the declaration does not hold of the code: fall back to forgetting the reference as well
					// (sound); whatever relied on the reference being stable fails as a named obligation
					return false
				}
				e.Assumptions["field "+sp.Pkg.Name()+"."+im.Type+"."+im.Field+" is assigned only while its object is constructed (checked: every store to it in the module targets a local allocation)"] = true
				return true
			}
		}
	}
	return false
}

// mutexThroughField: a mutex reached through a pointer field (m *sync.RWMutex) is identified with the
// field that holds the pointer (arg is the SSA expression the receiver was computed from).
func (e *Engine) mutexThroughField(st *State, fr *Frame, arg ssa.Value, p VPtr) VPtr {
	if p.L == nil || p.L.Kind != LHeap || len(p.L.Path) != 0 {
		return p
	}
	if u, isLoad := arg.(*ssa.UnOp); isLoad {
		if fa, isField := u.X.(*ssa.FieldAddr); isField {
			if owner, isPtr := e.val(st, fr, fa.X).(VPtr); isPtr && owner.L != nil && owner.L.Kind == LHeap {
				nl := *owner.L
				nl.Path = append(append([]pathStep(nil), owner.L.Path...), pathStep{Field: fa.Field})
				e.Assumptions["a mutex held through a pointer field is identified with that field (the pointer is set once by the constructor)"] = true
				return VPtr{L: &nl, Elem: p.Elem}
			}
		}
	}
	return p
}

// lockIntrinsic handles sync.(RW)Mutex methods on a guarded struct's mutex field.
func (e *Engine) lockIntrinsic(st *State, fr *Frame, x *ssa.Call, name string, args []Val) bool {
	var op string
	switch name {
	case "(*sync.RWMutex).Lock", "(*sync.Mutex).Lock":
		op = "W"
	case "(*sync.RWMutex).RLock":
		op = "R"
	case "(*sync.RWMutex).Unlock", "(*sync.Mutex).Unlock":
		op = "uW"
	case "(*sync.RWMutex).RUnlock":
		op = "uR"
	default:
		return false
	}
	p, ok := args[0].(VPtr)
	if ok && x != nil && len(x.Call.Args) > 0 {
		p = e.mutexThroughField(st, fr, x.Call.Args[0], p)
	}
	if !ok || p.L == nil || p.L.Kind != LHeap || len(p.L.Path) < 1 {
		panic(unsupported("mutex that is not a field of a heap object"))
	}
	// every 'guarded T.f by T.m' line that names this mutex contributes its field (one line per field is
	// the usual way to write it): the guarded state of the mutex is the union
	var g *guardInfo
	for _, gi := range e.guardsFor(p.L.Base) {
		if len(gi.mutex) == len(p.L.Path) && pathHasPrefix(p.L.Path, gi.mutex) {
			gi := gi
			if g == nil {
				g = &gi
				continue
			}
			g.fields = append(append([][]int(nil), g.fields...), gi.fields...)
			g.ftypes = append(append([]types.Type(nil), g.ftypes...), gi.ftypes...)
		}
	}
	if g == nil {
		panic(unsupported("mutex without a 'guarded ... by' declaration: " + p.L.Base.String()))
	}
	e.Assumptions["sync.(RW)Mutex provides mutual exclusion (writers) / shared access (readers); Go memory model"] = true
	// with generic types the location base may be an instantiation; use the location's own base for naming
	gl := *g
	if n, ok := types.Unalias(p.L.Base).(*types.Named); ok {
		gl.typ = n
	}
	mk := mutexKey(p.L.Ref, g.typeName, g.mutex)
	ord := -1
	pos := fr.block.Instrs[0].Pos()
	if x != nil {
		ord = e.ordinal(x)
		pos = x.Pos()
	}
	// acquire/release are visible in the call log (callSeq(mutexLock, n) / callSeq(mutexUnlock, n)), so that a
	// contract can say that a call happens inside the critical section
	if op == "W" || op == "R" {
		st.calls = append(st.calls, callRec{target: "mutexLock", args: []Val{args[0]}, seq: len(st.calls)})
	} else {
		st.calls = append(st.calls, callRec{target: "mutexUnlock", args: []Val{args[0]}, seq: len(st.calls)})
	}
	switch op {
	case "W", "R":
		e.oblige(st, "lockset@acquire", "", ord, BoolT(st.locks[mk] == ""), "mutex is not already held by this call (self-deadlock)", pos)
		st.locks[mk] = op
		if st.heldLocks == nil {
			st.heldLocks = map[string]heldLock{}
		}
		st.heldLocks[mk] = heldLock{ref: p.L.Ref, g: gl}
		e.havocGuarded(st, p.L.Ref, gl)
		if root := st.frames[0]; root.spec != nil {
			ic := &specCtx{e: e, st: st, env: e.entryEnv(root), heaps: st.heaps, oldHeaps: st.heaps, pkg: root.fn.Pkg}
			for _, li := range root.spec.LockInvs {
				st.assume(ic.evalBool(li.E))
			}
		}
		st.cs = append(st.cs, critSection{mode: op, mutex: mk, pre: copyHeaps(st.heaps), open: true})
	case "uW", "uR":
		want := "W"
		if op == "uR" {
			want = "R"
		}
		e.oblige(st, "lockset@release", "", ord, BoolT(st.locks[mk] == want), "mutex is held in the mode being released", pos)
		if root := st.frames[0]; root.spec != nil && op == "uW" {
			ic := &specCtx{e: e, st: st, env: e.entryEnv(root), heaps: st.heaps, oldHeaps: st.heaps, pkg: root.fn.Pkg, goal: true}
			for i, li := range root.spec.LockInvs {
				lbl := li.Label
				if lbl == "" {
					lbl = fmt.Sprint(i)
				}
				e.oblige(st, "lockinv@release", lbl, ord, ic.evalBool(li.E), "invariant of the guarded state re-established before the mutex is released: "+li.Text, pos)
			}
		}
		st.locks[mk] = ""
		for i := len(st.cs) - 1; i >= 0; i-- {
			if st.cs[i].open && st.cs[i].mutex == mk {
				st.cs[i].open = false
				st.cs[i].post = copyHeaps(st.heaps)
				break
			}
		}
	}
	return true
}

// lockAtReturn: balance, purity of the non-final sections, atomic clauses on the final one.
func (e *Engine) lockAtReturn(st *State, fn *ssa.Function, spec *FuncSpec, ctx *specCtx) {
	if len(spec.Atomic) == 0 && len(st.cs) == 0 {
		return
	}
	for mk, mode := range st.locks {
		if mode != "" {
			e.obligeNoAssume(st, "lock-balanced", "", -1, False, "every mutex acquired is released on every path ("+mk[strings.Index(mk, "|")+1:]+")")
		}
	}
	if len(spec.Atomic) == 0 {
		return
	}
	// which object do the sections belong to: all sections of this call
	var secs []critSection
	for _, c := range st.cs {
		if !c.open {
			secs = append(secs, c)
		}
	}
	var pre, post map[string]*Term
	if len(secs) == 0 {
		// no critical section on this path: the operation must be correct as a no-op on an arbitrary state
		pre, post = st.heaps, st.heaps
	} else {
		last := secs[len(secs)-1]
		pre, post = last.pre, last.post
		for i, c := range secs[:len(secs)-1] {
			pc := &specCtx{e: e, st: st, env: ctx.env, heaps: c.post, oldHeaps: c.pre, pkg: ctx.pkg, goal: true}
			for _, pexpr := range spec.Pures {
				g := pc.evalBool(pexpr.E)
				e.obligeNoAssume(st, "cs-pure", fmt.Sprintf("%d", i), -1, g, "a critical section before the linearizing one leaves the guarded state unchanged: "+pexpr.Text)
			}
		}
	}
	ac := &specCtx{e: e, st: st, env: ctx.env, heaps: post, oldHeaps: pre, pkg: ctx.pkg, goal: true, iters: ctx.iters}
	for i, a := range spec.Atomic {
		lbl := a.Label
		if lbl == "" {
			lbl = fmt.Sprint(i)
		}
		e.obligeNoAssume(st, "atomic", lbl, -1, ac.evalBool(a.E), "atomic effect (linearization point in the last critical section): "+a.Text)
	}
}

// fieldPathIdx: the type at an index path inside a (possibly instantiated) struct type.
func fieldPathIdx(t types.Type, path []int) ([]int, types.Type, bool) {
	for _, k := range path {
		st, ok := t.Underlying().(*types.Struct)
		if !ok || k >= st.NumFields() {
			return nil, nil, false
		}
		t = st.Field(k).Type()
	}
	return path, t, true
}

// loopReacquires: the loop body acquires a mutex (a loop that releases the lock it was entered with
// around a callback and takes it again before the next element).
func loopReacquires(li *loopInfo) bool {
	for b := range li.blocks {
		for _, in := range b.Instrs {
			if c, ok := in.(*ssa.Call); ok {
				if f := c.Call.StaticCallee(); f != nil {
					switch f.String() {
					case "(*sync.RWMutex).Lock", "(*sync.RWMutex).RLock", "(*sync.Mutex).Lock":
						return true
					}
				}
			}
		}
	}
	return false
}

// rehavocHeldAtLoopHead: at the head of an arbitrary iteration of a loop whose body releases and
// re-acquires a mutex, the state guarded by every mutex held there is whatever other goroutines left
// (it was forgotten by the acquire at the end of the previous iteration): forget it, and let the
// critical section that is open at the head start here.
func (e *Engine) rehavocHeldAtLoopHead(st *State) {
	var keys []string
	for mk, mode := range st.locks {
		if mode != "" {
			keys = append(keys, mk)
		}
	}
	sort.Strings(keys)
	for _, mk := range keys {
		h, ok := st.heldLocks[mk]
		if !ok {
			continue
		}
		st.published = true
		e.havocGuarded(st, h.ref, h.g)
		if root := st.frames[0]; root.spec != nil {
			ic := &specCtx{e: e, st: st, env: e.entryEnv(root), heaps: st.heaps, oldHeaps: st.heaps, pkg: root.fn.Pkg}
			for _, li := range root.spec.LockInvs {
				st.assume(ic.evalBool(li.E))
			}
		}
		for i := len(st.cs) - 1; i >= 0; i-- {
			if st.cs[i].open && st.cs[i].mutex == mk {
				st.cs[i].pre = copyHeaps(st.heaps)
				break
			}
		}
	}
}
