package eng

import (
	"strings"
	"sort"
	"fmt"
	"go/token"
	"go/types"

	"golang.org/x/tools/go/ssa"
)

// loopHead is called when a path enters a loop header block.
// First arrival (from outside): assert the invariants (inv-init), havoc what the loop may
// change, assume the invariants and continue on the same path.
// Arrival through a back edge: assert the invariants for #iter+1 (inv-pres) and the variant, end the path.
func (e *Engine) loopHead(st *State, fr *Frame, li *loopInfo) (stop bool) {
	var ls *LoopSpec
	if fr.spec != nil {
		ls = fr.spec.Loops[li.ord]
	}
	if ls == nil {
		panic(unsupported(fmt.Sprintf("loop %d of %s has no invariant", li.ord, fr.fn)))
	}
	lc := fr.loops[li.head]
	if ls.Unroll > 0 {
		// complete unrolling with an unwinding assertion (not a bound: the assertion must be proved)
		if lc == nil || !li.blocks[fr.prev] {
			lc = &loopCtx{ord: li.ord}
		} else {
			lc = &loopCtx{ord: li.ord, count: lc.count + 1}
		}
		fr.loops[li.head] = lc
		if lc.count > ls.Unroll {
			e.oblige(st, "unwind", fmt.Sprintf("loop%d", li.ord), -1, False, fmt.Sprintf("loop runs at most %d iterations (unwinding assertion)", ls.Unroll), li.pos)
			return true
		}
		return false
	}
	back := lc != nil && li.blocks[fr.prev]
	mk := func(iter *Term) *specCtx {
		return &specCtx{e: e, st: st, env: map[string]Val{}, oldEnv: e.entryEnv(st.frames[0]), heaps: st.heaps, oldHeaps: st.old,
			fr: fr, pos: li.pos, iter: iter, pkg: fr.fn.Pkg}
	}
	if back {
		// the lock state at the end of an iteration must be the one the loop was entered with (the loop
		// head assumes it for every iteration)
		if lk := lockSummary(st); lk != lc.locks {
			e.oblige(st, "lockset@loop", fmt.Sprintf("loop%d", li.ord), -1, False, "an iteration ends holding the same mutexes as the loop was entered with (entered: "+lc.locks+"; now: "+lk+")", li.pos)
		}
		next := Add(lc.iter, One)
		ctx := mk(next)
		ctx.goal = true
		for _, u := range ls.Unfolds {
			ctx.unfold(u)
		}
		for i, inv := range ls.Invs {
			g := ctx.evalBool(inv.E)
			e.oblige(st, "inv-pres", loopLabel(li.ord, inv, i), -1, g, "loop invariant preserved: "+inv.Text, li.pos)
		}
		if ri := rangeIndexCell(fr, li); ri != nil {
			if cv, ok := st.cellv[ri].(VInt); ok {
				e.oblige(st, "inv-pres", fmt.Sprintf("loop%d.rangeindex", li.ord), -1, Eq(cv.T, Sub(next, One)), "range index equals #iter-1", li.pos)
			}
		}
		if ls.Decreases != nil {
			nv := mk(next).evalInt(ls.Decreases)
			e.oblige(st, "variant", fmt.Sprintf("loop%d", li.ord), -1, And(Ge(lc.variant, Zero), Lt(nv, lc.variant)), "loop variant decreases and is bounded below", li.pos)
		}
		return true
	}
	// first arrival
	ctx0 := mk(Zero)
	ctx0.goal = true
	for _, u := range ls.Unfolds {
		ctx0.unfold(u)
	}
	for i, inv := range ls.Invs {
		g := ctx0.evalBool(inv.E)
		e.obligeNoAssume(st, "inv-init", loopLabel(li.ord, inv, i), -1, g, "loop invariant holds on entry: "+inv.Text)
	}
	// havoc cells assigned in the loop
	for _, a := range li.stored {
		cell := fr.cells[a]
		if cell == nil {
			// heap-allocated local: havoc its pointee
			if p, ok := fr.regs[a].(VPtr); ok && p.L != nil && p.L.Kind == LHeap {
				e.store(st, p.L, e.freshVal(st, p.Elem, a.Comment))
			}
			continue // not yet allocated: declared inside the loop body
		}
		st.cellv[cell] = e.freshVal(st, cell.T, a.Comment)
	}
	// map iterations driven by this loop: the set of keys already yielded is arbitrary (the invariants say what is known)
	for b := range li.blocks {
		for _, in := range b.Instrs {
			if nx, ok := in.(*ssa.Next); ok {
				if r, ok := fr.regs[nx.Iter].(*VRange); ok {
					e.setHeap(st, r.Heap, e.fresh("visited", RowB))
				}
			}
		}
	}
	// havoc heaps per the loop's modifies clauses
	preHeaps := copyHeaps(st.heaps)
	pre := &specCtx{e: e, st: st, env: map[string]Val{}, oldEnv: ctx0.oldEnv, heaps: preHeaps, oldHeaps: st.old, fr: fr, pos: li.pos, iter: Zero, pkg: fr.fn.Pkg}
	var lregs []region
	for _, m := range ls.Modifies {
		lregs = append(lregs, pre.evalRegion(m))
	}
	for _, r := range lregs {
		e.havocRegionR(st, fr, r, nil)
	}
	if loopReacquires(li) {
		e.rehavocHeldAtLoopHead(st)
	}
	if li.hasCall || len(ls.Modifies) > 0 {
		na := e.fresh("alloc", IntS)
		st.assume(Ge(na, st.alloc))
		st.alloc = na
	}
	iter := e.fresh("iter", IntS)
	st.assume(Ge(iter, Zero))
	lc = &loopCtx{iter: iter, ord: li.ord, locks: lockSummary(st)}
	fr.loops[li.head] = lc
	ctx := mk(iter)
	for _, u := range ls.Unfolds {
		ctx.unfold(u)
	}
	if ri := rangeIndexCell(fr, li); ri != nil {
		// range-over-slice loops: the hidden index equals #iter-1 at the loop head (before its increment)
		st.cellv[ri] = VInt{Sub(iter, One)}
	}
	for _, inv := range ls.Invs {
		st.assume(ctx.evalBool(inv.E))
	}
	for _, ap := range ls.Applies {
		e.applyLemma(st, ctx, ap, fmt.Sprintf("loop%d", li.ord), li.pos)
	}
	for i, as := range ls.Asserts {
		lbl := as.Label
		if lbl == "" {
			lbl = fmt.Sprint(i)
		}
		gctx := *ctx
		gctx.goal = true
		e.oblige(st, "assert", fmt.Sprintf("loop%d.%s", li.ord, lbl), -1, gctx.evalBool(as.E), "intermediate assertion at loop head: "+as.Text, li.pos)
	}
	if ls.Decreases != nil {
		lc.variant = mk(iter).evalInt(ls.Decreases)
	}
	// remember which writes are allowed inside this loop (frame of the loop)
	return false
}

func loopLabel(ord int, c Clause, i int) string {
	if c.Label != "" {
		return fmt.Sprintf("loop%d.%s", ord, c.Label)
	}
	return fmt.Sprintf("loop%d.%d", ord, i)
}

// entryEnv: parameter names bound to their entry values (for old(...) in loop clauses).
func (e *Engine) entryEnv(fr *Frame) map[string]Val {
	env := map[string]Val{}
	for i, p := range fr.fn.Params {
		env[p.Name()] = fr.params[i]
	}
	for k, v := range fr.extraEnv {
		env[k] = v
	}
	return env
}

// ---------- frame checking (function-level modifies) ----------

// frameCheckStore: a store through a heap location must be allowed by the function's modifies clause
// (or hit an object allocated during the call).
func (e *Engine) frameCheckStore(st *State, fr *Frame, l *Loc, in ssa.Instruction) {
	root := st.frames[0]
	if root.spec == nil || root.spec.ModAny {
		return
	}
	if _, guarded := e.guardOfLoc(l); guarded {
		return // lock-guarded state: governed by the lock discipline and the atomic clauses, not by the frame
	}
	switch l.Kind {
	case LElem:
		e.frameCheckRegion(st, fr, l.Base, l.Obj, l.Idx, Add(l.Idx, One), in)
	case LHeap:
		ctx := &specCtx{e: e, st: st, env: e.entryEnv(root), heaps: st.old, oldHeaps: st.old, pkg: root.fn.Pkg}
		allowed := Ge(l.Ref, st.alloc0) // fresh object
		for _, m := range root.spec.Modifies {
			r, ok := e.tryRegion(ctx, m)
			if !ok || r.kind != "loc" || r.loc.Kind != LHeap {
				continue
			}
			if types.Identical(r.loc.Base, l.Base) && pathPrefix(r.loc.Path, l.Path) {
				allowed = Or(allowed, Eq(r.loc.Ref, l.Ref))
			}
		}
		e.oblige(st, "frame@store", "", e.ordinal(in), allowed, "store target is inside the declared modifies frame", in.Pos())
	}
}

func pathPrefix(a, b []pathStep) bool {
	if len(a) > len(b) {
		return false
	}
	for i := range a {
		if a[i].Field != b[i].Field {
			return false
		}
	}
	return true
}

func (e *Engine) tryRegion(ctx *specCtx, m Expr) (r region, ok bool) {
	defer func() {
		if x := recover(); x != nil {
			if _, is := x.(*SpecError); is {
				ok = false
				return
			}
			panic(x)
		}
	}()
	return ctx.evalRegion(m), true
}

func (e *Engine) frameCheckRegion(st *State, fr *Frame, elem types.Type, obj, lo, hi *Term, in ssa.Instruction) {
	root := st.frames[0]
	if root.spec == nil || root.spec.ModAny {
		return
	}
	if e.guardedArrayWrite(st, obj) {
		return // lock-guarded state: governed by the lock discipline and the atomic clauses, not by the frame
	}
	ctx := &specCtx{e: e, st: st, env: e.entryEnv(root), heaps: st.old, oldHeaps: st.old, pkg: root.fn.Pkg}
	allowed := Or(Ge(obj, st.alloc0), Ge(lo, hi))
	for _, m := range root.spec.Modifies {
		r, ok := e.tryRegion(ctx, m)
		if !ok || r.kind != "slice" || !types.Identical(r.elem, elem) {
			continue
		}
		allowed = Or(allowed, And(Eq(r.obj, obj), Le(r.lo, lo), Le(hi, r.hi)))
	}
	pos := token.NoPos
	ord := -1
	if in != nil {
		pos = in.Pos()
		ord = e.ordinal(in)
	}
	e.oblige(st, "frame@write", "", ord, allowed, "written element range is inside the declared modifies frame (or a fresh object)", pos)
}

// ---------- lock discipline (filled in by locks.go when guards are declared) ----------

func (e *Engine) lockCheckRead(st *State, fr *Frame, l *Loc, in ssa.Instruction) {
	e.lockCheck(st, fr, l, false, in)
}

// rangeIndexCell finds the hidden index cell of a range-over-slice loop (NaiveForm: alloc "rangeindex").
func rangeIndexCell(fr *Frame, li *loopInfo) *Cell {
	for _, a := range li.stored {
		if a.Comment == "rangeindex" {
			// its increment sits in the loop head
			for _, in := range li.head.Instrs {
				if s, ok := in.(*ssa.Store); ok && s.Addr == a {
					return fr.cells[a]
				}
			}
		}
	}
	return nil
}

// applyLemma uses a ghost lemma function's contract at a specification point: its preconditions
// become obligations, its postconditions assumptions. Arguments are specification expressions.
func (e *Engine) applyLemma(st *State, ctx *specCtx, ap Expr, where string, pos token.Pos) {
	guard := True
	if b, isImp := ap.(*EBin); isImp && b.Op == "==>" {
		guard = ctx.evalBool(b.X)
		ap = b.Y
	}
	call, ok := ap.(*ECall)
	if !ok {
		panic(&SpecError{"apply needs a call expression (optionally guarded: cond ==> Lemma(args))"})
	}
	id, ok := call.Fun.(*EIdent)
	if !ok {
		panic(&SpecError{"apply needs a lemma name"})
	}
	var spec *FuncSpec
	var pkg *ssa.Package
	for p, ps := range e.Specs {
		if fs := ps.Funcs[id.Name]; fs != nil && (p == ctx.pkg || spec == nil) {
			spec, pkg = fs, p
		}
	}
	if spec == nil {
		panic(&SpecError{"apply: unknown lemma " + id.Name})
	}
	if len(spec.Modifies) > 0 || !spec.HasMod {
		panic(&SpecError{"apply: lemma " + id.Name + " must declare 'modifies nothing'"})
	}
	fn := LookupFunc(e.Prog, pkg, spec.Key)
	if fn == nil || len(fn.Params) != len(call.Args) {
		panic(&SpecError{"apply: lemma " + id.Name + " not found or wrong number of arguments"})
	}
	env := map[string]Val{}
	for i, p := range fn.Params {
		env[p.Name()] = ctx.eval(call.Args[i])
	}
	sub := &specCtx{e: e, st: st, env: env, heaps: ctx.heaps, oldHeaps: ctx.heaps, pkg: pkg, iters: e.freshIters(st, id.Name)}
	for i, r := range spec.Requires {
		sub.goal = true
		rq := sub.evalBool(r.E)
		sub.goal = false
		e.oblige(st, "pre@apply", fmt.Sprintf("%s.%s.%d", where, id.Name, i), -1, Implies(guard, rq), "lemma precondition: "+r.Text, pos)
	}
	for _, en := range spec.Ensures {
		st.assume(Implies(guard, sub.evalBool(en.E)))
	}
}

func lockSummary(st *State) string {
	var ks []string
	for k, m := range st.locks {
		if m != "" {
			ks = append(ks, k+"="+m)
		}
	}
	sort.Strings(ks)
	return strings.Join(ks, ",")
}
