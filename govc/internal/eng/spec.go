package eng

import (
	"fmt"
	"math/big"
	"os"
	"sort"
	"strconv"
	"strings"
	"unicode"
)

// ---------- expression AST of the contract language ----------

type Expr interface{}

type (
	EInt   struct{ V *big.Int }
	EBool  struct{ V bool }
	ENil   struct{}
	EStr   struct{ S string }
	EIdent struct{ Name string }
	EUn    struct {
		Op string
		X  Expr
	}
	EBin struct {
		Op   string
		X, Y Expr
	}
	ECall struct {
		Fun  Expr
		Args []Expr
	}
	EIndex struct{ X, I Expr }
	ESlice struct{ X, Lo, Hi Expr }
	ESel   struct {
		X    Expr
		Name string
	}
	QVar struct {
		Name string
		Type string
	}
	EQuant struct {
		Forall bool
		Vars   []QVar
		Trig   [][]Expr
		Body   Expr
	}
	ELet struct {
		Name      string
		Val, Body Expr
	}
	ELit struct { // composite literal T{f: e, ...}
		Type   string
		Names  []string
		Values []Expr
	}
)

type Clause struct {
	Label  string
	E      Expr
	Text   string
	Line   int
	Except Expr   // known-finding region: the clause is claimed only outside it
	Tag    string // known-finding tag (D3, ...)
}

type Param struct {
	Name string
	Type string
}

type SpecFunc struct {
	Uninterpreted bool // declared without a body
	Name   string
	Params []Param
	Ret    string
	Rec    bool
	Body   Expr
	Text   string
}

type LoopSpec struct {
	Invs      []Clause
	Decreases Expr
	Modifies  []Expr
	Unfolds   []Expr
	Havoc     []string // extra cells to havoc (normally computed)
	Asserts   []Clause // intermediate facts proved at the loop head after the applies, then assumed (cuts)
	Applies   []Expr   // lemma applications at the loop head (after the invariants are assumed)
	Unroll    int      // >0: execute the loop concretely up to N iterations with an unwinding assertion
}

type WitnessSpec struct {
	Name string
	E    Expr
}

type ParamSpec struct { // contract of an opaque function-valued parameter
	Name     string
	Modifies []Expr
	Ensures  []Clause
	Requires []Clause
}

type FuncSpec struct {
	Key      string
	Results  []string
	Ghosts   []Param
	Requires []Clause
	Hidden   map[string]bool // "hide a, b": labelled ensures that are proved for the function but not handed to its callers (keeps callers' queries small; sound: callers only know less)
	Assumes  []Clause // "assumes": entry conditions the body is verified under that are NOT checked at call sites (each is reported as an unchecked assumption)
	Ensures  []Clause
	Modifies []Expr
	HasMod   bool // a modifies clause (possibly empty "modifies nothing") was given
	SignalChans bool // "signal-channels": chan struct{} values are only ever closed, never sent on (checked syntactically for the package)
	ModAny   bool // "modifies anything": no frame is claimed (entry points that run arbitrary handlers); callers under contract are refused
	Loops    map[int]*LoopSpec
	Unfolds  []Expr
	Applies  []Expr // lemma applications at function entry
	Witness  []WitnessSpec // ghost results: name = expression over locals evaluated at return (existential for callers)
	Inline   bool
	Trusted  bool
	Pure     bool
	NoPanic  bool
	Atomic   []Clause
	GhostArgs  map[string]Expr   // 'ghost-arg callee.name = expr': value for a callee's ghost parameter at the calls made by this function
	Callbacks  map[string]Clause // 'callback name: expr over r0, r1, ...' assumed of a callback stored in a field
	OpaquePure bool // 'opaque-calls pure': function values that are not parameters may be called; assumed not to touch the state in question
	LockInvs []Clause // 'lockinv': invariant of the guarded state, assumed after every acquire, proved at every release
	Pures    []Clause // 'cs-pure': what 'guarded state unchanged' means for the non-final critical sections
	InlineCalls []string // callees executed in place in this function although they have a contract
	Params   map[string]*ParamSpec
	File     string
	Line     int
	Text     []string
}

type LemmaSpec struct {
	Name     string
	Params   []Param
	Requires []Clause
	Ensures  []Clause
	Unfolds  []Expr
	Induct   string // induction variable ("" = none)
	Line     int
}

type ImmutableSpec struct{ Type, Field string }

type GuardSpec struct {
	Type   string // e.g. Map
	Fields []string
	Mutex  string
}

type PkgSpec struct {
	Path   string
	Specs  map[string]*SpecFunc
	Funcs  map[string]*FuncSpec
	Lemmas []*LemmaSpec
	Guards []*GuardSpec
	Immutable []ImmutableSpec // fields assigned only while their object is being constructed
	Order  []string
}

func NewPkgSpec(path string) *PkgSpec {
	return &PkgSpec{Path: path, Specs: map[string]*SpecFunc{}, Funcs: map[string]*FuncSpec{}}
}

// ---------- lexer ----------

type tok struct {
	k string // "id","int","str","chr","op","eof"
	s string
}

func lex(src string) ([]tok, error) {
	var out []tok
	i := 0
	for i < len(src) {
		c := src[i]
		switch {
		case c == ' ' || c == '\t' || c == '\n' || c == '\r':
			i++
		case c == '#' || c == '_' || unicode.IsLetter(rune(c)):
			j := i + 1
			for j < len(src) && (src[j] == '_' || src[j] == '$' || unicode.IsLetter(rune(src[j])) || unicode.IsDigit(rune(src[j]))) {
				j++
			}
			out = append(out, tok{"id", src[i:j]})
			i = j
		case c >= '0' && c <= '9':
			j := i + 1
			for j < len(src) && (unicode.IsDigit(rune(src[j])) || unicode.IsLetter(rune(src[j])) || src[j] == '_') {
				j++
			}
			out = append(out, tok{"int", src[i:j]})
			i = j
		case c == '"':
			j := i + 1
			for j < len(src) && src[j] != '"' {
				if src[j] == '\\' {
					j++
				}
				j++
			}
			if j >= len(src) {
				return nil, fmt.Errorf("unterminated string")
			}
			s, err := strconv.Unquote(src[i : j+1])
			if err != nil {
				return nil, err
			}
			out = append(out, tok{"str", s})
			i = j + 1
		case c == '\'':
			j := i + 1
			for j < len(src) && src[j] != '\'' {
				if src[j] == '\\' {
					j++
				}
				j++
			}
			r, _, _, err := strconv.UnquoteChar(src[i+1:j], '\'')
			if err != nil {
				return nil, err
			}
			out = append(out, tok{"int", strconv.Itoa(int(r))})
			i = j + 1
		default:
			ops := []string{"<==>", "==>", "::", "<=", ">=", "==", "!=", "&&", "||", "<<", ">>", "..."}
			matched := false
			for _, o := range ops {
				if strings.HasPrefix(src[i:], o) {
					out = append(out, tok{"op", o})
					i += len(o)
					matched = true
					break
				}
			}
			if !matched {
				out = append(out, tok{"op", string(c)})
				i++
			}
		}
	}
	out = append(out, tok{"eof", ""})
	return out, nil
}

// ---------- parser ----------

type parser struct {
	toks []tok
	p    int
}

func (p *parser) peek() tok { return p.toks[p.p] }
func (p *parser) next() tok { t := p.toks[p.p]; p.p++; return t }
func (p *parser) isOp(s string) bool {
	t := p.peek()
	return t.k == "op" && t.s == s
}
func (p *parser) isID(s string) bool {
	t := p.peek()
	return t.k == "id" && t.s == s
}
func (p *parser) expectOp(s string) {
	if !p.isOp(s) {
		panic(fmt.Sprintf("expected %q, got %q", s, p.peek().s))
	}
	p.p++
}

var binPrec = map[string]int{
	"<==>": 1, "==>": 2, "||": 3, "&&": 4,
	"==": 5, "!=": 5, "<": 5, "<=": 5, ">": 5, ">=": 5,
	"+": 6, "-": 6, "|": 6, "^": 6,
	"*": 7, "/": 7, "%": 7, "<<": 7, ">>": 7, "&": 7,
}

func ParseExpr(src string) (e Expr, err error) {
	defer func() {
		if r := recover(); r != nil {
			err = fmt.Errorf("parse error in %q: %v", src, r)
		}
	}()
	toks, lerr := lex(src)
	if lerr != nil {
		return nil, lerr
	}
	p := &parser{toks: toks}
	e = p.expr(0)
	if p.peek().k != "eof" {
		panic(fmt.Sprintf("trailing input at %q", p.peek().s))
	}
	return e, nil
}

func (p *parser) expr(min int) Expr {
	lhs := p.unary()
	for {
		t := p.peek()
		if t.k != "op" {
			break
		}
		pr, ok := binPrec[t.s]
		if !ok || pr < min {
			break
		}
		p.p++
		var rhs Expr
		if t.s == "==>" { // right associative
			rhs = p.expr(pr)
		} else {
			rhs = p.expr(pr + 1)
		}
		lhs = &EBin{Op: t.s, X: lhs, Y: rhs}
	}
	return lhs
}

func (p *parser) unary() Expr {
	t := p.peek()
	if t.k == "op" {
		switch t.s {
		case "!", "-", "*", "&":
			p.p++
			return &EUn{Op: t.s, X: p.unary()}
		}
	}
	if t.k == "id" && (t.s == "forall" || t.s == "exists") {
		p.p++
		q := &EQuant{Forall: t.s == "forall"}
		for {
			name := p.next()
			if name.k != "id" {
				panic("quantifier variable expected")
			}
			typ := p.typeText()
			q.Vars = append(q.Vars, QVar{name.s, typ})
			if p.isOp(",") {
				p.p++
				continue
			}
			break
		}
		p.expectOp("::")
		for p.isOp("{") {
			p.p++
			var trig []Expr
			for {
				trig = append(trig, p.expr(0))
				if p.isOp(",") {
					p.p++
					continue
				}
				break
			}
			p.expectOp("}")
			q.Trig = append(q.Trig, trig)
		}
		q.Body = p.expr(0)
		return q
	}
	if t.k == "id" && t.s == "let" {
		p.p++
		name := p.next()
		p.expectOp("=")
		v := p.expr(0)
		if !p.isID("in") {
			panic("expected 'in'")
		}
		p.p++
		body := p.expr(0)
		return &ELet{Name: name.s, Val: v, Body: body}
	}
	return p.postfix(p.primary())
}

// typeText reads a type up to "," or "::" or ")" at depth 0 (only textual).
func (p *parser) typeText() string {
	var b strings.Builder
	depth := 0
	for {
		t := p.peek()
		if t.k == "eof" {
			break
		}
		if t.k == "op" && depth == 0 && (t.s == "," || t.s == "::" || t.s == ")" || t.s == "=") {
			break
		}
		if t.k == "op" && (t.s == "(" || t.s == "[") {
			depth++
		}
		if t.k == "op" && (t.s == ")" || t.s == "]") {
			depth--
		}
		b.WriteString(t.s)
		p.p++
	}
	return b.String()
}

func (p *parser) primary() Expr {
	t := p.next()
	switch t.k {
	case "int":
		s := strings.ReplaceAll(t.s, "_", "")
		n, ok := new(big.Int).SetString(s, 0)
		if !ok {
			panic("bad integer " + t.s)
		}
		return &EInt{n}
	case "str":
		return &EStr{t.s}
	case "id":
		switch t.s {
		case "true":
			return &EBool{true}
		case "false":
			return &EBool{false}
		case "nil":
			return &ENil{}
		}
		return &EIdent{t.s}
	case "op":
		if t.s == "(" {
			e := p.expr(0)
			p.expectOp(")")
			return e
		}
		if t.s == "[" { // []byte(x) style conversions are not supported; treat "[]T" as ident
			p.expectOp("]")
			n := p.next()
			return &EIdent{"[]" + n.s}
		}
	}
	panic(fmt.Sprintf("unexpected token %q", t.s))
}

func (p *parser) postfix(e Expr) Expr {
	for {
		switch {
		case p.isOp("("):
			p.p++
			var args []Expr
			for !p.isOp(")") {
				args = append(args, p.expr(0))
				if p.isOp(",") {
					p.p++
				}
			}
			p.expectOp(")")
			e = &ECall{Fun: e, Args: args}
		case p.isOp("["):
			p.p++
			var lo, hi Expr
			if !p.isOp(":") {
				lo = p.expr(0)
			}
			if p.isOp(":") {
				p.p++
				if !p.isOp("]") {
					hi = p.expr(0)
				}
				p.expectOp("]")
				e = &ESlice{X: e, Lo: lo, Hi: hi}
			} else {
				p.expectOp("]")
				e = &EIndex{X: e, I: lo}
			}
		case p.isOp("."):
			p.p++
			n := p.next()
			if n.k != "id" {
				panic("field name expected")
			}
			e = &ESel{X: e, Name: n.s}
		case p.isOp("{") && isTypeName(e):
			p.p++
			lit := &ELit{Type: typeNameOf(e)}
			for !p.isOp("}") {
				n := p.next()
				if n.k != "id" {
					panic("field name expected in composite literal")
				}
				p.expectOp(":")
				lit.Names = append(lit.Names, n.s)
				lit.Values = append(lit.Values, p.expr(0))
				if p.isOp(",") {
					p.p++
				}
			}
			p.expectOp("}")
			e = lit
		default:
			return e
		}
	}
}

// ---------- contract file parser ----------

var clauseKW = map[string]bool{
	"spec": true, "func": true, "lemma": true, "guarded": true,
	"requires": true, "ensures": true, "modifies": true, "ghost": true, "loop": true,
	"invariant": true, "decreases": true, "unfold": true, "inline": true, "trusted": true,
	"pure": true, "atomic": true, "param": true, "induction": true, "havoc": true, "nopanic": true, "unroll": true, "known-finding": true, "apply": true, "assert": true, "witness": true, "cs-pure": true, "inline-call": true, "lockinv": true, "opaque-calls": true, "signal-channels": true, "callback": true, "immutable": true, "ghost-arg": true, "assumes": true, "hide": true,
}

type rawClause struct {
	kw     string
	text   string
	line   int
	indent int // spaces between the comment marker and the keyword
}

// ParseContractFile parses the //@ lines of a contract file (or a .spec file where
// every non-empty line that is not a // comment is contract text).
func ParseContractFile(path string, src []byte, ps *PkgSpec) error {
	lines := strings.Split(string(src), "\n")
	var raws []rawClause
	plain := strings.HasSuffix(path, ".spec")
	for i, ln := range lines {
		s := strings.TrimSpace(ln)
		indent := 0
		if plain {
			if s == "" || strings.HasPrefix(s, "//") {
				continue
			}
		} else {
			if !strings.HasPrefix(s, "//@") {
				continue
			}
			indent = len(s[3:]) - len(strings.TrimLeft(s[3:], " \t"))
			s = strings.TrimSpace(s[3:])
			if s == "" {
				continue
			}
		}
		first := s
		if j := strings.IndexAny(s, " \t(:["); j >= 0 {
			first = s[:j]
		}
		if clauseKW[first] {
			raws = append(raws, rawClause{first, strings.TrimSpace(s[len(first):]), i + 1, indent})
		} else if len(raws) > 0 {
			raws[len(raws)-1].text += " " + s
		} else {
			return fmt.Errorf("%s:%d: contract text before any clause keyword", path, i+1)
		}
	}
	var cur *FuncSpec
	var curLoop *LoopSpec
	var curLemma *LemmaSpec
	var curParam *ParamSpec
	mkClause := func(rc rawClause) (Clause, error) {
		text := rc.text
		label := ""
		if strings.HasPrefix(text, "[") {
			if j := strings.Index(text, "]"); j > 0 {
				label = strings.TrimSpace(text[1:j])
				text = strings.TrimSpace(text[j+1:])
			}
		}
		e, err := ParseExpr(text)
		if err != nil {
			return Clause{}, fmt.Errorf("%s:%d: %v", path, rc.line, err)
		}
		return Clause{Label: label, E: e, Text: text, Line: rc.line}, nil
	}
	exprList := func(rc rawClause) ([]Expr, error) {
		if strings.TrimSpace(rc.text) == "nothing" || strings.TrimSpace(rc.text) == "" {
			return nil, nil
		}
		e, err := ParseExpr("__list(" + rc.text + ")")
		if err != nil {
			return nil, fmt.Errorf("%s:%d: %v", path, rc.line, err)
		}
		return e.(*ECall).Args, nil
	}
	paramIndent := 0
	for _, rc := range raws {
		if cur != nil {
			cur.Text = append(cur.Text, rc.kw+" "+rc.text)
		}
		// clauses belong to a `param name:` block only while they are indented deeper than it
		if curParam != nil && rc.kw != "param" && rc.indent <= paramIndent {
			curParam = nil
		}
		if rc.kw == "param" {
			paramIndent = rc.indent
		}
		switch rc.kw {
		case "spec":
			cur, curLoop, curLemma, curParam = nil, nil, nil, nil
			sf, err := parseSpecFunc(rc.text)
			if err != nil {
				return fmt.Errorf("%s:%d: %v", path, rc.line, err)
			}
			if _, dup := ps.Specs[sf.Name]; dup {
				return fmt.Errorf("%s:%d: duplicate spec function %s", path, rc.line, sf.Name)
			}
			ps.Specs[sf.Name] = sf
		case "func":
			curLoop, curLemma, curParam = nil, nil, nil
			fs, err := parseFuncHeader(rc.text)
			if err != nil {
				return fmt.Errorf("%s:%d: %v", path, rc.line, err)
			}
			fs.File, fs.Line = path, rc.line
			fs.Text = []string{"func " + rc.text}
			if _, dup := ps.Funcs[fs.Key]; dup {
				return fmt.Errorf("%s:%d: duplicate contract for %s", path, rc.line, fs.Key)
			}
			ps.Funcs[fs.Key] = fs
			ps.Order = append(ps.Order, fs.Key)
			cur = fs
		case "lemma":
			cur, curLoop, curParam = nil, nil, nil
			lm, err := parseLemmaHeader(rc.text)
			if err != nil {
				return fmt.Errorf("%s:%d: %v", path, rc.line, err)
			}
			lm.Line = rc.line
			ps.Lemmas = append(ps.Lemmas, lm)
			curLemma = lm
		case "immutable":
			// immutable Conn.tokenHandlerContainer
			a := strings.SplitN(strings.TrimSpace(rc.text), ".", 2)
			if len(a) != 2 {
				return fmt.Errorf("%s:%d: immutable T.f", path, rc.line)
			}
			ps.Immutable = append(ps.Immutable, ImmutableSpec{a[0], a[1]})
		case "guarded":
			// guarded Map.data by Map.mutex
			parts := strings.Fields(rc.text)
			if len(parts) != 3 || parts[1] != "by" {
				return fmt.Errorf("%s:%d: guarded T.f by T.m", path, rc.line)
			}
			a := strings.SplitN(parts[0], ".", 2)
			b := strings.SplitN(parts[2], ".", 2)
			ps.Guards = append(ps.Guards, &GuardSpec{Type: a[0], Fields: []string{a[1]}, Mutex: b[1]})
		case "ghost-arg":
			if cur == nil {
				return fmt.Errorf("%s:%d: ghost-arg outside func", path, rc.line)
			}
			eq := strings.Index(rc.text, "=")
			if eq < 0 {
				return fmt.Errorf("%s:%d: ghost-arg callee.name = expr", path, rc.line)
			}
			ex, err := ParseExpr(strings.TrimSpace(rc.text[eq+1:]))
			if err != nil {
				return fmt.Errorf("%s:%d: %v", path, rc.line, err)
			}
			if cur.GhostArgs == nil {
				cur.GhostArgs = map[string]Expr{}
			}
			cur.GhostArgs[strings.TrimSpace(rc.text[:eq])] = ex
		case "callback":
			if cur == nil {
				return fmt.Errorf("%s:%d: callback outside func", path, rc.line)
			}
			i := strings.Index(rc.text, ":")
			if i < 0 {
				return fmt.Errorf("%s:%d: callback name: condition", path, rc.line)
			}
			c, err := mkClause(rawClause{kw: rc.kw, text: strings.TrimSpace(rc.text[i+1:]), line: rc.line})
			if err != nil {
				return err
			}
			if cur.Callbacks == nil {
				cur.Callbacks = map[string]Clause{}
			}
			cur.Callbacks[strings.TrimSpace(rc.text[:i])] = c
		case "signal-channels":
			if cur == nil {
				return fmt.Errorf("%s:%d: signal-channels outside func", path, rc.line)
			}
			cur.SignalChans = true
		case "opaque-calls":
			if cur == nil {
				return fmt.Errorf("%s:%d: opaque-calls outside func", path, rc.line)
			}
			cur.OpaquePure = true
		case "lockinv":
			c, err := mkClause(rc)
			if err != nil {
				return err
			}
			if cur == nil {
				return fmt.Errorf("%s:%d: lockinv outside func", path, rc.line)
			}
			cur.LockInvs = append(cur.LockInvs, c)
		case "cs-pure":
			c, err := mkClause(rc)
			if err != nil {
				return err
			}
			if cur == nil {
				return fmt.Errorf("%s:%d: cs-pure outside func", path, rc.line)
			}
			cur.Pures = append(cur.Pures, c)
		case "inline-call":
			if cur == nil {
				return fmt.Errorf("%s:%d: inline-call outside func", path, rc.line)
			}
			for _, f := range strings.Split(rc.text, ",") {
				cur.InlineCalls = append(cur.InlineCalls, strings.TrimSpace(f))
			}
		case "assert":
			c, err := mkClause(rc)
			if err != nil {
				return err
			}
			if curLoop == nil {
				return fmt.Errorf("%s:%d: assert outside loop", path, rc.line)
			}
			curLoop.Asserts = append(curLoop.Asserts, c)
		case "hide":
			if cur == nil || curParam != nil || curLoop != nil {
				return fmt.Errorf("%s:%d: hide outside func", path, rc.line)
			}
			if cur.Hidden == nil {
				cur.Hidden = map[string]bool{}
			}
			for _, l := range strings.Split(rc.text, ",") {
				cur.Hidden[strings.TrimSpace(l)] = true
			}
		case "assumes":
			c, err := mkClause(rc)
			if err != nil {
				return err
			}
			if cur == nil || curParam != nil || curLoop != nil {
				return fmt.Errorf("%s:%d: assumes outside func", path, rc.line)
			}
			cur.Assumes = append(cur.Assumes, c)
		case "requires", "ensures", "invariant", "atomic":
			c, err := mkClause(rc)
			if err != nil {
				return err
			}
			switch {
			case curLemma != nil && rc.kw == "requires":
				curLemma.Requires = append(curLemma.Requires, c)
			case curLemma != nil && rc.kw == "ensures":
				curLemma.Ensures = append(curLemma.Ensures, c)
			case cur == nil:
				return fmt.Errorf("%s:%d: %s outside func", path, rc.line, rc.kw)
			case rc.kw == "invariant":
				if curLoop == nil {
					return fmt.Errorf("%s:%d: invariant outside loop", path, rc.line)
				}
				curLoop.Invs = append(curLoop.Invs, c)
			case curParam != nil && rc.kw == "ensures":
				curParam.Ensures = append(curParam.Ensures, c)
			case curParam != nil && rc.kw == "requires":
				curParam.Requires = append(curParam.Requires, c)
			case rc.kw == "requires":
				cur.Requires = append(cur.Requires, c)
			case rc.kw == "ensures":
				cur.Ensures = append(cur.Ensures, c)
			case rc.kw == "atomic":
				cur.Atomic = append(cur.Atomic, c)
			}
		case "modifies", "unfold":
			es, err := exprList(rc)
			if err != nil {
				return err
			}
			switch {
			case curLemma != nil && rc.kw == "unfold":
				curLemma.Unfolds = append(curLemma.Unfolds, es...)
			case cur == nil:
				return fmt.Errorf("%s:%d: %s outside func", path, rc.line, rc.kw)
			case rc.kw == "modifies" && curLoop != nil:
				curLoop.Modifies = append(curLoop.Modifies, es...)
			case rc.kw == "modifies" && curParam != nil:
				curParam.Modifies = append(curParam.Modifies, es...)
			case rc.kw == "modifies":
				cur.Modifies = append(cur.Modifies, es...)
				cur.HasMod = true
				if strings.TrimSpace(rc.text) == "anything" {
					cur.ModAny = true
					cur.Modifies = nil
				}
			case curLoop != nil:
				curLoop.Unfolds = append(curLoop.Unfolds, es...)
			default:
				cur.Unfolds = append(cur.Unfolds, es...)
			}
		case "havoc":
			if curLoop == nil {
				return fmt.Errorf("%s:%d: havoc outside loop", path, rc.line)
			}
			for _, f := range strings.Split(rc.text, ",") {
				curLoop.Havoc = append(curLoop.Havoc, strings.TrimSpace(f))
			}
		case "known-finding":
			// known-finding [label] TAG: region-expression   (attaches to the ensures clause with that label)
			if cur == nil {
				return fmt.Errorf("%s:%d: known-finding outside func", path, rc.line)
			}
			text := strings.TrimSpace(rc.text)
			if !strings.HasPrefix(text, "[") || !strings.Contains(text, "]") {
				return fmt.Errorf("%s:%d: known-finding [label] TAG: region", path, rc.line)
			}
			j := strings.Index(text, "]")
			label := strings.TrimSpace(text[1:j])
			rest := strings.TrimSpace(text[j+1:])
			col := strings.Index(rest, ":")
			if col < 0 {
				return fmt.Errorf("%s:%d: known-finding [label] TAG: region", path, rc.line)
			}
			tag := strings.TrimSpace(rest[:col])
			ex, err := ParseExpr(rest[col+1:])
			if err != nil {
				return fmt.Errorf("%s:%d: %v", path, rc.line, err)
			}
			found := false
			for i := range cur.Ensures {
				if cur.Ensures[i].Label == label {
					cur.Ensures[i].Except, cur.Ensures[i].Tag = ex, tag
					found = true
				}
			}
			if !found {
				return fmt.Errorf("%s:%d: known-finding: no ensures clause labelled %q", path, rc.line, label)
			}
		case "witness":
			// witness f = idxPre, l = idxPost
			if cur == nil {
				return fmt.Errorf("%s:%d: witness outside func", path, rc.line)
			}
			kv := strings.SplitN(rc.text, "=", 2)
			if len(kv) != 2 {
				return fmt.Errorf("%s:%d: witness name = expression", path, rc.line)
			}
			we, err := ParseExpr(kv[1])
			if err != nil {
				return fmt.Errorf("%s:%d: %v", path, rc.line, err)
			}
			cur.Witness = append(cur.Witness, WitnessSpec{strings.TrimSpace(kv[0]), we})
		case "apply":
			es, err := exprList(rc)
			if err != nil {
				return err
			}
			switch {
			case cur == nil:
				return fmt.Errorf("%s:%d: apply outside func", path, rc.line)
			case curLoop != nil:
				curLoop.Applies = append(curLoop.Applies, es...)
			default:
				cur.Applies = append(cur.Applies, es...)
			}
		case "unroll":
			if curLoop == nil {
				return fmt.Errorf("%s:%d: unroll outside loop", path, rc.line)
			}
			n, err := strconv.Atoi(strings.TrimSpace(rc.text))
			if err != nil || n <= 0 {
				return fmt.Errorf("%s:%d: unroll N", path, rc.line)
			}
			curLoop.Unroll = n
		case "decreases":
			e, err := ParseExpr(rc.text)
			if err != nil {
				return fmt.Errorf("%s:%d: %v", path, rc.line, err)
			}
			if curLoop == nil {
				return fmt.Errorf("%s:%d: decreases outside loop", path, rc.line)
			}
			curLoop.Decreases = e
		case "ghost":
			if cur == nil {
				return fmt.Errorf("%s:%d: ghost outside func", path, rc.line)
			}
			f := strings.SplitN(strings.TrimSpace(rc.text), " ", 2)
			if len(f) != 2 {
				return fmt.Errorf("%s:%d: ghost name type", path, rc.line)
			}
			cur.Ghosts = append(cur.Ghosts, Param{f[0], strings.TrimSpace(f[1])})
		case "loop":
			if cur == nil {
				return fmt.Errorf("%s:%d: loop outside func", path, rc.line)
			}
			n, err := strconv.Atoi(strings.TrimSuffix(strings.TrimSpace(rc.text), ":"))
			if err != nil {
				return fmt.Errorf("%s:%d: loop N:", path, rc.line)
			}
			curLoop = &LoopSpec{}
			curParam = nil
			cur.Loops[n] = curLoop
		case "param":
			if cur == nil {
				return fmt.Errorf("%s:%d: param outside func", path, rc.line)
			}
			name := strings.TrimSuffix(strings.TrimSpace(rc.text), ":")
			curParam = &ParamSpec{Name: name}
			curLoop = nil
			cur.Params[name] = curParam
		case "induction":
			if curLemma == nil {
				return fmt.Errorf("%s:%d: induction outside lemma", path, rc.line)
			}
			curLemma.Induct = strings.TrimSpace(strings.TrimPrefix(strings.TrimSpace(rc.text), "on"))
		case "inline":
			cur.Inline = true
		case "trusted":
			cur.Trusted = true
		case "pure":
			cur.Pure = true
		case "nopanic":
			cur.NoPanic = true
		}
	}
	return nil
}

func parseSpecFunc(text string) (*SpecFunc, error) {
	// [rec] name(p T, q T) R = body
	sf := &SpecFunc{Text: text}
	t := strings.TrimSpace(text)
	if strings.HasPrefix(t, "rec ") {
		sf.Rec = true
		t = strings.TrimSpace(t[4:])
	}
	op := strings.Index(t, "(")
	if op < 0 {
		return nil, fmt.Errorf("spec: missing (")
	}
	sf.Name = strings.TrimSpace(t[:op])
	depth, cl := 0, -1
	for i := op; i < len(t); i++ {
		if t[i] == '(' {
			depth++
		} else if t[i] == ')' {
			depth--
			if depth == 0 {
				cl = i
				break
			}
		}
	}
	if cl < 0 {
		return nil, fmt.Errorf("spec: missing )")
	}
	sf.Params = parseParams(t[op+1 : cl])
	rest := t[cl+1:]
	eq := strings.Index(rest, "=")
	if eq < 0 {
		// no body: an uninterpreted function of the identities of its arguments (bool or integer result)
		sf.Ret = strings.TrimSpace(rest)
		sf.Uninterpreted = true
		return sf, nil
	}
	sf.Ret = strings.TrimSpace(rest[:eq])
	body, err := ParseExpr(rest[eq+1:])
	if err != nil {
		return nil, err
	}
	sf.Body = body
	return sf, nil
}

func parseParams(s string) []Param {
	var out []Param
	depth := 0
	start := 0
	flush := func(end int) {
		f := strings.TrimSpace(s[start:end])
		if f == "" {
			return
		}
		parts := strings.SplitN(f, " ", 2)
		p := Param{Name: parts[0]}
		if len(parts) == 2 {
			p.Type = strings.TrimSpace(parts[1])
		}
		out = append(out, p)
	}
	for i := 0; i < len(s); i++ {
		switch s[i] {
		case '(', '[':
			depth++
		case ')', ']':
			depth--
		case ',':
			if depth == 0 {
				flush(i)
				start = i + 1
			}
		}
	}
	flush(len(s))
	return out
}

// parseFuncHeader parses "[(Recv)] Name(params) [(results)]" or a fully qualified
// "pkg/path.Name(...)" / "(pkg/path.T).Name(...)" form for trusted library contracts.
func parseFuncHeader(text string) (*FuncSpec, error) {
	t := strings.TrimSpace(text)
	fs := &FuncSpec{Loops: map[int]*LoopSpec{}, Params: map[string]*ParamSpec{}}
	key := ""
	if strings.HasPrefix(t, "(") {
		cl := strings.Index(t, ")")
		if cl < 0 {
			return nil, fmt.Errorf("func: bad receiver")
		}
		key = "(" + strings.ReplaceAll(t[1:cl], " ", "") + ")."
		t = strings.TrimSpace(t[cl+1:])
		t = strings.TrimPrefix(t, ".")
	}
	op := strings.Index(t, "(")
	if op < 0 {
		return nil, fmt.Errorf("func: missing (")
	}
	key += strings.TrimSpace(t[:op])
	fs.Key = key
	depth, cl := 0, -1
	for i := op; i < len(t); i++ {
		if t[i] == '(' {
			depth++
		} else if t[i] == ')' {
			depth--
			if depth == 0 {
				cl = i
				break
			}
		}
	}
	if cl < 0 {
		return nil, fmt.Errorf("func: missing )")
	}
	rest := strings.TrimSpace(t[cl+1:])
	if strings.HasPrefix(rest, "(") && strings.HasSuffix(rest, ")") {
		for _, p := range parseParams(rest[1 : len(rest)-1]) {
			fs.Results = append(fs.Results, p.Name)
		}
	} else if rest != "" {
		fs.Results = []string{"result"}
	}
	return fs, nil
}

func parseLemmaHeader(text string) (*LemmaSpec, error) {
	t := strings.TrimSpace(text)
	op := strings.Index(t, "(")
	cl := strings.LastIndex(t, ")")
	if op < 0 || cl < op {
		return nil, fmt.Errorf("lemma name(params)")
	}
	return &LemmaSpec{Name: strings.TrimSpace(t[:op]), Params: parseParams(t[op+1 : cl])}, nil
}

// LoadSpecDir parses every *.spec file of a directory into one PkgSpec (trusted library contracts).
func LoadSpecDir(dir string) (*PkgSpec, error) {
	ps := NewPkgSpec("<stdspec>")
	ents, err := os.ReadDir(dir)
	if err != nil {
		return ps, nil
	}
	var names []string
	for _, e := range ents {
		if strings.HasSuffix(e.Name(), ".spec") {
			names = append(names, e.Name())
		}
	}
	sort.Strings(names)
	for _, n := range names {
		b, err := os.ReadFile(dir + "/" + n)
		if err != nil {
			return nil, err
		}
		if err := ParseContractFile(dir+"/"+n, b, ps); err != nil {
			return nil, err
		}
	}
	for _, f := range ps.Funcs {
		f.Trusted = true
	}
	return ps, nil
}

func isTypeName(e Expr) bool {
	switch n := e.(type) {
	case *EIdent:
		return len(n.Name) > 0 && n.Name[0] >= 'A' && n.Name[0] <= 'Z'
	case *ESel:
		if id, ok := n.X.(*EIdent); ok {
			return len(n.Name) > 0 && n.Name[0] >= 'A' && n.Name[0] <= 'Z' && len(id.Name) > 0 && id.Name[0] >= 'a' && id.Name[0] <= 'z'
		}
	}
	return false
}

func typeNameOf(e Expr) string {
	switch n := e.(type) {
	case *EIdent:
		return n.Name
	case *ESel:
		return n.X.(*EIdent).Name + "." + n.Name
	}
	return ""
}
