package main

import (
	"fmt"
	"os"

	"golang.org/x/tools/go/packages"
	"golang.org/x/tools/go/ssa"
	"golang.org/x/tools/go/ssa/ssautil"
)

func main() {
	cfg := &packages.Config{Mode: packages.LoadAllSyntax, Dir: "/repo", BuildFlags: []string{"-tags=verif"}, Env: append(os.Environ(), "GOFLAGS=-mod=mod", "GOPROXY=off")}
	pkgs, err := packages.Load(cfg, os.Args[1])
	if err != nil {
		panic(err)
	}
	prog, spkgs := ssautil.AllPackages(pkgs, ssa.NaiveForm|ssa.InstantiateGenerics)
	prog.Build()
	for _, p := range spkgs {
		if p == nil {
			continue
		}
		for _, fn := range os.Args[2:] {
			if f := p.Func(fn); f != nil {
				f.WriteTo(os.Stdout)
			}
		}
	}
	fmt.Println("ok")
}
