// govc: contract-based deductive verifier for plgd-dev/go-coap (see /verif/DESIGN.md).
package main

import (
	"flag"
	"fmt"
	"os"
	"sort"
	"strings"
	"time"

	"govc/internal/eng"
)

func main() {
	if len(os.Args) < 2 {
		fmt.Fprintln(os.Stderr, "usage: govc verify|check|replay|selftest ...")
		os.Exit(2)
	}
	switch os.Args[1] {
	case "verify":
		cmdVerify(os.Args[2:])
	case "check":
		os.Exit(cmdCheck(os.Args[2:]))
	case "replay":
		os.Exit(cmdReplay(os.Args[2:]))
	case "ssa":
		cmdSSA(os.Args[2:])
	default:
		fmt.Fprintln(os.Stderr, "unknown command", os.Args[1])
		os.Exit(2)
	}
}

func envOr(k, d string) string {
	if v := os.Getenv(k); v != "" {
		return v
	}
	return d
}

// verify: developer command. govc verify -pkg net/blockwise [-func Name] [-v] [-dump dir]
func cmdVerify(args []string) {
	fs := flag.NewFlagSet("verify", flag.ExitOnError)
	pkg := fs.String("pkg", "", "repo-relative package dir(s), comma separated")
	fn := fs.String("func", "", "only this contract key (substring)")
	verbose := fs.Bool("v", false, "list every obligation")
	dump := fs.String("dump", "", "write failing SMT files here")
	full := fs.Int("t", 10, "solver timeout seconds")
	probe := fs.Bool("probe", false, "split failing goals into conjuncts and report which fail")
	repo := fs.String("repo", envOr("VERIF_REPO", "/repo"), "repository")
	verif := fs.String("verif", envOr("VERIF_DIR", "/verif"), "verif dir")
	fs.Parse(args)
	dirs := strings.Split(*pkg, ",")
	t0 := time.Now()
	ld, err := eng.LoadOpt(*repo, *verif, dirs, true)
	if err != nil {
		fmt.Println("load:", err)
		os.Exit(2)
	}
	fmt.Printf("loaded in %.1fs; overlaid contracts: %v\n", time.Since(t0).Seconds(), ld.Overlaid)
	tmp, _ := os.MkdirTemp("", "govc")
	defer os.RemoveAll(tmp)
	bad := 0
	for _, d := range dirs {
		sp := ld.Pkgs[d]
		if sp == nil {
			fmt.Println("package not loaded:", d)
			continue
		}
		ps := ld.Eng.Specs[sp]
		if ps == nil {
			fmt.Println("no contracts for", d)
			continue
		}
		for _, key := range ps.Order {
			if *fn != "" && !strings.Contains(key, *fn) {
				continue
			}
			spec := ps.Funcs[key]
			if spec.Inline {
				continue
			}
			if spec.Trusted {
				fmt.Printf("%-50s trusted (assumed)\n", key)
				continue
			}
			f := eng.LookupFunc(ld.Prog, sp, key)
			if f == nil {
				fmt.Printf("%-50s NOT FOUND in package\n", key)
				bad++
				continue
			}
			t1 := time.Now()
			res := ld.Eng.VerifyFunc(f, spec)
			if res.Err != nil {
				fmt.Printf("%-50s REFUSED: %v\n", key, res.Err)
				bad++
				continue
			}
			gen := time.Since(t1).Seconds()
			eng.Discharge(res.Obligations, eng.SolverCfg{Dir: tmp, Quick: 3 * time.Second, Full: time.Duration(*full) * time.Second})
			ok, fail, covers, vac := 0, 0, 0, 0
			byName := map[string][]*eng.Obligation{}
			var names []string
			for _, ob := range res.Obligations {
				if _, seen := byName[ob.Name]; !seen {
					names = append(names, ob.Name)
				}
				byName[ob.Name] = append(byName[ob.Name], ob)
				if ob.Cover {
					covers++
					if ob.Status == "unsat" {
						vac++
					}
					continue
				}
				if ob.Status == "unsat" {
					ok++
				} else {
					fail++
				}
			}
			fmt.Printf("%-50s paths=%d obligations=%d discharged=%d failed=%d covers=%d vacuous=%d gen=%.2fs total=%.2fs\n",
				key, res.Paths, ok+fail, ok, fail, covers, vac, gen, time.Since(t1).Seconds())
			sort.Strings(names)
			for _, n := range names {
				obs := byName[n]
				nf := 0
				for _, ob := range obs {
					if !ob.Cover && ob.Status != "unsat" || ob.Cover && ob.Status == "unsat" {
						nf++
					}
				}
				if obs[0].Cover && nf < len(obs) {
					nf = 0 // some path is feasible: infeasible paths are dead code, not vacuity
				}
				if nf > 0 || *verbose {
					st := "ok"
					if nf > 0 {
						st = "FAILED"
						bad++
					}
					fmt.Printf("    %-8s %s  (%d instance(s), %d failing)\n", st, n, len(obs), nf)
					if *dump != "" && *verbose && os.Getenv("GOVC_DUMP_ALL") != "" {
						os.MkdirAll(*dump, 0o755)
						for i, ob := range obs {
							fnm := fmt.Sprintf("%s/all_%s_%d.smt2", *dump, strings.NewReplacer("/", "_", ":", "_", "(", "", ")", "", "*", "p", "#", "_").Replace(n), i)
							os.WriteFile(fnm, []byte(ob.SMT(true)), 0o644)
						}
					}
					if obs[0].Cover && *verbose {
						for ci, ob := range obs {
							if ob.Status == "unsat" {
								fmt.Printf("        infeasible path %s\n", ob.Path)
								if *dump != "" {
									os.MkdirAll(*dump, 0o755)
									fnm := fmt.Sprintf("%s/cover_%s_%d.smt2", *dump, strings.ReplaceAll(ob.Path, ">", "_"), ci)
									os.WriteFile(fnm, []byte(ob.SMT(true)), 0o644)
								}
							}
						}
					}
				}
				if nf > 0 {
					for i, ob := range obs {
						if (!ob.Cover && ob.Status != "unsat") || (ob.Cover && ob.Status == "unsat") {
							fmt.Printf("        [%d] status=%s solver=%s path=%s clause=%s\n", i, ob.Status, ob.Solver, ob.Path, ob.Clause)
							if *dump != "" {
								os.MkdirAll(*dump, 0o755)
								fnm := fmt.Sprintf("%s/%s_%d.smt2", *dump, strings.NewReplacer("/", "_", ":", "_", "(", "", ")", "", "*", "p", "#", "_").Replace(n), i)
								os.WriteFile(fnm, []byte(ob.SMT(true)), 0o644)
								fmt.Println("        dumped", fnm)
							}
							if *probe {
								bad := eng.Probe(ob, eng.SolverCfg{Dir: tmp, Quick: 3 * time.Second, Full: time.Duration(*full) * time.Second})
								for _, b := range bad {
									g := b.Goal.String()
									if len(g) > 600 {
										g = g[:600] + "..."
									}
									fmt.Printf("          conjunct %s: %s\n            %s\n", b.Name[strings.LastIndex(b.Name, "~"):], b.Status, g)
								}
							}
							if ob.Model != "" && *verbose {
								fmt.Println(indent(firstLines(ob.Model, 40), "          "))
							}
							break
						}
					}
				}
			}
		}
	}
	var as []string
	for a := range ld.Eng.Assumptions {
		as = append(as, a)
	}
	sort.Strings(as)
	for _, a := range as {
		fmt.Println("assumption:", a)
	}
	if bad > 0 {
		os.Exit(1)
	}
}

func firstLines(s string, n int) string {
	ls := strings.Split(s, "\n")
	if len(ls) > n {
		ls = ls[:n]
	}
	return strings.Join(ls, "\n")
}

func indent(s, p string) string {
	return p + strings.ReplaceAll(s, "\n", "\n"+p)
}

func cmdSSA(args []string) {
	fs := flag.NewFlagSet("ssa", flag.ExitOnError)
	pkg := fs.String("pkg", "", "package dir")
	fn := fs.String("func", "", "contract key")
	fs.Parse(args)
	ld, err := eng.Load("/repo", "/verif", []string{*pkg})
	if err != nil {
		fmt.Println(err)
		os.Exit(2)
	}
	f := eng.LookupFunc(ld.Prog, ld.Pkgs[*pkg], *fn)
	if f == nil {
		fmt.Println("not found")
		os.Exit(1)
	}
	f.WriteTo(os.Stdout)
	for _, a := range f.AnonFuncs {
		a.WriteTo(os.Stdout)
	}
}



