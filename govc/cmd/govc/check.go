package main

import (
	"os/exec"
	"context"
	"bytes"
	"encoding/json"
	"flag"
	"fmt"
	"os"
	"path/filepath"
	"sort"
	"strconv"
	"strings"
	"time"

	"govc/internal/eng"
)

type PropDef struct {
	ID        string   `json:"id"`
	Level     string   `json:"level"`
	Functions []string `json:"functions"` // "dir:key"
	Lemmas    []string `json:"lemmas"`    // "dir:name"
	Trusted   []string `json:"trusted_base"`
	Notes     string   `json:"notes"`
	Bounded   []string `json:"bounded"` // functions covered only by a bounded stand-in (never counted as proved)
}

type knownFinding struct {
	Kind       string // "known" or "fixed"
	Property   string
	Obligation string
	Text       string
}

func loadKnown(path string) []knownFinding {
	b, err := os.ReadFile(path)
	if err != nil {
		return nil
	}
	var out []knownFinding
	for _, ln := range strings.Split(string(b), "\n") {
		ln = strings.TrimSpace(ln)
		if ln == "" || strings.HasPrefix(ln, "#") {
			continue
		}
		var k knownFinding
		switch {
		case strings.HasPrefix(ln, "known:"):
			k.Kind = "known"
			ln = strings.TrimSpace(ln[6:])
		case strings.HasPrefix(ln, "fixed:"):
			k.Kind = "fixed"
			ln = strings.TrimSpace(ln[6:])
		default:
			continue
		}
		for _, f := range strings.Fields(ln) {
			if strings.HasPrefix(f, "property=") {
				k.Property = f[9:]
			}
			if strings.HasPrefix(f, "obligation=") {
				k.Obligation = f[11:]
			}
		}
		k.Text = ln
		out = append(out, k)
	}
	return out
}

type obSummary struct {
	Name      string  `json:"name"`
	Instances int     `json:"instances"`
	Status    string  `json:"status"`
	Solver    string  `json:"solver,omitempty"`
	MaxTime   float64 `json:"max_time_s"`
	Clause    string  `json:"clause,omitempty"`
	SMTBytes  int     `json:"smt_bytes,omitempty"`
}

func cmdCheck(args []string) int {
	fs := flag.NewFlagSet("check", flag.ExitOnError)
	prop := fs.String("property", "", "property id")
	tier := fs.String("tier", envOr("VERIF_TIER", "quick"), "quick|thorough")
	repo := fs.String("repo", envOr("VERIF_REPO", "/repo"), "repository")
	verif := fs.String("verif", envOr("VERIF_DIR", "/verif"), "verif dir")
	noEvidence := fs.Bool("no-evidence", false, "do not write the evidence file")
	updateBaseline := fs.Bool("update-baseline", false, "record the generated obligation names as the baseline of this property")
	fs.Parse(args)
	t0 := time.Now()
	seed, _ := strconv.Atoi(envOr("VERIF_SEED", "0"))
	var pd PropDef
	b, err := os.ReadFile(filepath.Join(*verif, "props", *prop+".json"))
	if err != nil {
		fmt.Println("ERROR: no property definition:", err)
		return 2
	}
	if err := json.Unmarshal(b, &pd); err != nil {
		fmt.Println("ERROR:", err)
		return 2
	}
	dirSet := map[string]bool{}
	for _, f := range append(append([]string{}, pd.Functions...), pd.Lemmas...) {
		dirSet[strings.SplitN(f, ":", 2)[0]] = true
	}
	var dirs []string
	for d := range dirSet {
		dirs = append(dirs, d)
	}
	sort.Strings(dirs)
	ld, err := eng.Load(*repo, *verif, dirs)
	if err != nil {
		// the tree does not build with the contracts: nothing can be decided deductively
		fmt.Printf("UNDECIDED property=%s reason=load-failed: %v\n", pd.ID, err)
		writeEvidence(*verif, &pd, *tier, seed, t0, nil, nil, nil, []string{"load failed: " + err.Error()}, ld, *noEvidence, 0, nil)
		return 0
	}
	tmp, _ := os.MkdirTemp("", "govc")
	defer os.RemoveAll(tmp)
	cfg := eng.SolverCfg{Dir: tmp, Quick: 4 * time.Second, Full: 150 * time.Second}
	if v, err := strconv.Atoi(os.Getenv("GOVC_FULL_SECS")); err == nil && v > 0 {
		// development aid (seed matrix): a shorter second-stage budget; never set by the registered commands
		cfg.Full = time.Duration(v) * time.Second
	}
	if *tier == "thorough" {
		cfg = eng.SolverCfg{Dir: tmp, Quick: 6 * time.Second, Full: 120 * time.Second, TwoAgree: true}
	}
	var results []*eng.FuncResult
	var undecided []string
	var noReturn []string
	for _, ref := range pd.Functions {
		parts := strings.SplitN(ref, ":", 2)
		sp := ld.Pkgs[parts[0]]
		var ps *eng.PkgSpec
		if sp != nil {
			ps = ld.Eng.Specs[sp]
		}
		if sp == nil || ps == nil || ps.Funcs[parts[1]] == nil {
			undecided = append(undecided, fmt.Sprintf("function=%s reason=no-contract-found", ref))
			continue
		}
		f := eng.LookupFunc(ld.Prog, sp, parts[1])
		if f == nil {
			undecided = append(undecided, fmt.Sprintf("function=%s reason=function-not-found-in-source", ref))
			continue
		}
		res := ld.Eng.VerifyFunc(f, ps.Funcs[parts[1]])
		if res.Err != nil {
			undecided = append(undecided, fmt.Sprintf("function=%s reason=%q", ref, res.Err.Error()))
			continue
		}
		if !ps.Funcs[parts[1]].Trusted {
			// vacuity guard: symbolic execution must reach a return on at least one path
			reached := false
			for _, ob := range res.Obligations {
				if ob.Cover && strings.HasSuffix(ob.Name, "/cover:return") {
					reached = true
				}
			}
			if !reached {
				noReturn = append(noReturn, ref)
			}
		}
		results = append(results, res)
	}
	for _, ref := range pd.Lemmas {
		parts := strings.SplitN(ref, ":", 2)
		sp := ld.Pkgs[parts[0]]
		var lm *eng.LemmaSpec
		if sp != nil && ld.Eng.Specs[sp] != nil {
			for _, l := range ld.Eng.Specs[sp].Lemmas {
				if l.Name == parts[1] {
					lm = l
				}
			}
		}
		if lm == nil {
			undecided = append(undecided, fmt.Sprintf("lemma=%s reason=not-found", ref))
			continue
		}
		res := ld.Eng.VerifyLemma(sp, lm)
		if res.Err != nil {
			undecided = append(undecided, fmt.Sprintf("lemma=%s reason=%q", ref, res.Err.Error()))
			continue
		}
		results = append(results, res)
	}
	var all []*eng.Obligation
	for _, r := range results {
		all = append(all, r.Obligations...)
	}
	eng.Discharge(all, cfg)

	if os.Getenv("GOVC_DEBUG") != "" {
		sorted := append([]*eng.Obligation(nil), all...)
		sort.Slice(sorted, func(i, j int) bool { return sorted[i].Time > sorted[j].Time })
		for i, ob := range sorted {
			if i >= 15 {
				break
			}
			fmt.Printf("DEBUG slow %.2fs %s %s %s size=%d\n", ob.Time, ob.Status, ob.Solver, ob.Name, ob.Size)
		}
	}
	// aggregate by name
	type agg struct {
		obs []*eng.Obligation
	}
	byName := map[string]*agg{}
	var names []string
	for _, ob := range all {
		a := byName[ob.Name]
		if a == nil {
			a = &agg{}
			byName[ob.Name] = a
			names = append(names, ob.Name)
		}
		a.obs = append(a.obs, ob)
	}
	sort.Strings(names)
	known := loadKnown(filepath.Join(*verif, "KNOWN_FINDINGS.txt"))
	isKnown := func(name string) *knownFinding {
		for i := range known {
			if known[i].Kind == "known" && known[i].Property == pd.ID && known[i].Obligation == name {
				return &known[i]
			}
		}
		return nil
	}
	var sums []obSummary
	nOb, nDis := 0, 0
	bySolver := map[string]int{}
	solverTime, maxTime := 0.0, 0.0
	var failing []*eng.Obligation
	var vacuous []string
	for _, n := range names {
		a := byName[n]
		s := obSummary{Name: n, Instances: len(a.obs), Status: "discharged", Clause: a.obs[0].Clause}
		if a.obs[0].Cover {
			// vacuity: requires-cover must be satisfiable; at least one return path must be feasible
			feasible := false
			for _, ob := range a.obs {
				if ob.Status != "unsat" {
					feasible = true
				}
				solverTime += ob.Time
			}
			if !feasible {
				vacuous = append(vacuous, n)
				s.Status = "VACUOUS"
			} else {
				s.Status = "cover-ok"
			}
			sums = append(sums, s)
			continue
		}
		probe := strings.Contains(n, "!") // known-finding probe: expected to fail, not part of the claim
		ok := true
		var firstFail *eng.Obligation
		for _, ob := range a.obs {
			solverTime += ob.Time
			if ob.Time > s.MaxTime {
				s.MaxTime = ob.Time
			}
			if ob.Size > s.SMTBytes {
				s.SMTBytes = ob.Size
			}
			if ob.Status != "unsat" {
				ok = false
				if firstFail == nil || (strings.HasPrefix(firstFail.Solver, "skipped") && !strings.HasPrefix(ob.Solver, "skipped")) {
					firstFail = ob
				}
			} else {
				bySolver[strings.TrimSuffix(ob.Solver, "(cached)")]++
				s.Solver = ob.Solver
			}
		}
		if s.MaxTime > maxTime {
			maxTime = s.MaxTime
		}
		// The claim of a run is the set of obligations that are neither probes nor recorded known findings:
		// an obligation that fails and is listed in KNOWN_FINDINGS.txt (by probe name or by its exact name) is
		// reported as KNOWN-FINDING and counted under known_finding_obligations, not under obligations/discharged.
		if ok {
			if !probe {
				nOb++
				nDis++
			} else {
				s.Status = "known-finding-probe-discharged (finding no longer present)"
			}
		} else if probe && isKnown(n) != nil {
			s.Status = "known-finding-probe (fails as recorded)"
			failing = append(failing, firstFail)
		} else if isKnown(n) != nil {
			s.Status = "known-finding (" + firstFail.Status + ": fails as recorded, not part of the proof claim)"
			failing = append(failing, firstFail)
		} else {
			if !probe {
				nOb++
			}
			s.Status = "FAILED(" + firstFail.Status + ")"
			failing = append(failing, firstFail)
		}
		sums = append(sums, s)
	}
	if *updateBaseline {
		m := map[string][]string{}
		if b, err := os.ReadFile(filepath.Join(*verif, "baseline_obligations.json")); err == nil {
			json.Unmarshal(b, &m)
		}
		var bl []string
		for _, n := range names {
			if !byName[n].obs[0].Cover && !strings.Contains(n, "!") {
				bl = append(bl, n)
			}
		}
		m[pd.ID] = bl
		b, _ := json.MarshalIndent(m, "", " ")
		os.WriteFile(filepath.Join(*verif, "baseline_obligations.json"), b, 0o644)
	}
	// baseline: names that must be generated (vacuity guard against silently vanishing obligations)
	var missing []string
	if bl := loadBaseline(*verif, pd.ID); bl != nil {
		for _, n := range bl {
			if strings.Contains(n, "#") {
				continue // safety obligations are named by instruction ordinal, which harmless edits shift; the guard is about contract clauses
			}
			if _, ok := byName[n]; !ok {
				missing = append(missing, n)
			}
		}
	}
	violations := 0
	exit := 0
	var knownHit []string
	for _, ob := range failing {
		if k := isKnown(ob.Name); k != nil { // a probe obligation (name!TAG) or an obligation recorded by its exact name (one call site)
			fmt.Printf("KNOWN-FINDING: %s\n", k.Text)
			knownHit = append(knownHit, ob.Name)
			continue
		}
		violations++
		if violations > 3 {
			// the first violations carry a replay attempt; further ones are reported with the solver's output only
			eng.ReplayBudget = time.Second
		}
		rp := writeReplay(*verif, *repo, &pd, ob, ld, *tier)
		suffix := ""
		if !rp.Reproduced {
			suffix = " no-failing-input-found"
		}
		fmt.Printf("VIOLATION property=%s replay=%s obligation=%s%s\n", pd.ID, rp.Path, ob.Name, suffix)
		exit = 1
	}
	for _, v := range noReturn {
		fmt.Printf("ERROR property=%s vacuous=%s (no path of the function reaches a return: assumptions taken from callee contracts are contradictory, nothing was proved)\n", pd.ID, v)
		exit = 2
	}
	for _, v := range vacuous {
		fmt.Printf("ERROR property=%s vacuous=%s (contradictory assumptions: nothing was proved)\n", pd.ID, v)
		exit = 2
	}
	for _, u := range undecided {
		fmt.Printf("UNDECIDED property=%s %s\n", pd.ID, u)
	}
	for _, m := range missing {
		if !strings.Contains(strings.Join(undecided, " "), strings.SplitN(m, "/", 2)[0]) {
			fmt.Printf("UNDECIDED property=%s obligation=%s reason=not-generated-anymore (contract stale or code restructured)\n", pd.ID, m)
			undecided = append(undecided, "obligation="+m+" reason=not-generated")
		}
	}
	if nOb == 0 && len(undecided) == 0 {
		fmt.Printf("ERROR property=%s generated zero obligations\n", pd.ID)
		exit = 2
	}
	fmt.Printf("property=%s tier=%s functions=%d obligations=%d discharged=%d violations=%d known=%d undecided=%d solver_time=%.1fs wall=%.1fs\n",
		pd.ID, *tier, len(results), nOb, nDis, violations, len(knownHit), len(undecided), solverTime, time.Since(t0).Seconds())
	extra := map[string]interface{}{
		"by_solver": bySolver, "solver_time_s": round2(solverTime), "max_obligation_s": round2(maxTime),
		"known_findings_confirmed": knownHit, "known_finding_obligations": len(knownHit), "obligations_generated": nOb + len(knownHit),
		"undecided": undecided, "vacuous": vacuous,
		"contracts_overlaid_from_mirror": ld.Overlaid, "contracts_differ_from_mirror": ld.Differs,
	}
	writeEvidence(*verif, &pd, *tier, seed, t0, results, sums, extra, nil, ld, *noEvidence, violations, undecided)
	return exit
}

func round2(f float64) float64 { return float64(int(f*100+0.5)) / 100 }

func loadBaseline(verif, id string) []string {
	b, err := os.ReadFile(filepath.Join(verif, "baseline_obligations.json"))
	if err != nil {
		return nil
	}
	m := map[string][]string{}
	if json.Unmarshal(b, &m) != nil {
		return nil
	}
	return m[id]
}

func writeEvidence(verif string, pd *PropDef, tier string, seed int, t0 time.Time, results []*eng.FuncResult, sums []obSummary,
	extra map[string]interface{}, errs []string, ld *eng.Loaded, skip bool, violations int, undecided []string) {
	if skip {
		return
	}
	nOb, nDis := 0, 0
	for _, s := range sums {
		if s.Status == "cover-ok" || s.Status == "VACUOUS" || strings.HasPrefix(s.Status, "known-finding") {
			continue // covers, and probes / recorded known findings (reported separately, see known_findings_confirmed)
		}
		nOb++
		if s.Status == "discharged" {
			nDis++
		}
	}
	level := pd.Level
	if level == "" {
		level = "proof"
	}
	var funcs []map[string]interface{}
	for _, r := range results {
		names := map[string]bool{}
		for _, ob := range r.Obligations {
			if !ob.Cover {
				names[ob.Name] = true
			}
		}
		funcs = append(funcs, map[string]interface{}{"function": r.Name, "obligations": len(names), "paths": r.Paths})
	}
	var samples []interface{}
	for i, s := range sums {
		if s.Status == "cover-ok" {
			continue
		}
		if len(samples) < 12 || i%17 == 0 {
			samples = append(samples, s)
		}
	}
	if len(samples) == 0 {
		samples = append(samples, "no obligations generated")
	}
	tb := []string{"go/packages + go/types + go/ssa (x/tools v0.50.0) build the IR", "govc symbolic semantics of SSA instructions (this tool)",
		"z3 4.8.12, z3 5.1.0, cvc5 1.0.3", "Go memory model / sequential execution of each function"}
	tb = append(tb, pd.Trusted...)
	var assumptions []string
	if ld != nil && ld.Eng != nil {
		for a := range ld.Eng.Assumptions {
			assumptions = append(assumptions, a)
		}
	}
	sort.Strings(assumptions)
	assumptions = append(assumptions, "every slice/string has len <= cap and offset+cap <= 2^48; allocation returns objects distinct from all live ones")
	assumptions = append(assumptions, errs...)
	if len(undecided) > 0 || (nOb != nDis) {
		// not a complete proof on this run
		if len(undecided) > 0 && violations == 0 {
			level = "exploration"
		}
	}
	cov := map[string]interface{}{
		"obligations": nOb, "discharged": nDis,
		"checker_cmd":  fmt.Sprintf("/verif/bin/govc check -property %s -tier %s", pd.ID, tier),
		"trusted_base": tb, "functions_under_contract": funcs, "samples": samples,
		"all_obligations": sums, "bounded_stand_ins": pd.Bounded,
		"explanation": pd.Notes,
	}
	if level == "exploration" {
		cov["evaluations"] = nOb
		cov["distinct_nontrivial"] = nDis
		cov["rule"] = "obligations generated from the current source; this run could not generate all of them (see undecided), so it is reported as exploration, not proof"
	}
	for k, v := range extra {
		cov[k] = v
	}
	ev := map[string]interface{}{
		"property_id": pd.ID, "tier": tier, "seed": seed, "level": level, "coverage": cov,
		"assumptions": assumptions, "wall_s": round2(time.Since(t0).Seconds()), "violations": violations,
	}
	os.MkdirAll(filepath.Join(verif, "evidence"), 0o755)
	b, _ := json.MarshalIndent(ev, "", " ")
	os.WriteFile(filepath.Join(verif, "evidence", pd.ID+".json"), b, 0o644)
}

type replayResult struct {
	Path       string
	Reproduced bool
}

func safeName(s string) string {
	return strings.NewReplacer("/", "_", ":", "_", "(", "", ")", "", "*", "p", "#", "_", " ", "_").Replace(s)
}

// writeReplay records a failed obligation and tries to reproduce it on the real code.
func writeReplay(verif, repo string, pd *PropDef, ob *eng.Obligation, ld *eng.Loaded, tier string) replayResult {
	dir := filepath.Join(verif, "replays", pd.ID)
	os.MkdirAll(dir, 0o755)
	path := filepath.Join(dir, safeName(ob.Name)+".json")
	scratch, _ := os.MkdirTemp("", "govc-replay")
	defer os.RemoveAll(scratch)
	out := ld.Eng.Replay(ob, repo, scratch)
	if !out.Reproduced {
		// no input could be built from the solver's model: try the prepared scenario recorded for this clause
		if sc := scenarioReplay(verif, repo, ob.Name, scratch); sc != nil {
			sc.Reason = "prepared scenario for this clause (not derived from the solver model; model-based replay: " + out.Reason + ")"
			if sc.Reproduced {
				out = *sc
			} else {
				out.Output += "\n--- prepared scenario " + sc.Command + " passed on this tree ---\n" + sc.Output
			}
		}
	}
	model := ob.Model
	if len(model) > 20000 {
		model = model[:20000] + "\n...(truncated)"
	}
	rec := map[string]interface{}{
		"property": pd.ID, "obligation": ob.Name, "kind": ob.Kind, "clause": ob.Clause, "function": ob.Func,
		"path_blocks": ob.Path, "source_position": ob.Pos.String(), "solver_status": ob.Status, "solver": ob.Solver,
		"solver_output": model, "replay": out,
		"how_to_rerun": fmt.Sprintf("/verif/bin/govc check -property %s -tier %s", pd.ID, tier),
		"smt2": ob.SMT(true),
	}
	if !out.Reproduced {
		rec["note"] = "no-failing-input-found: the obligation is not discharged on the current source; " + out.Reason
	}
	b, _ := json.MarshalIndent(rec, "", " ")
	os.WriteFile(path, b, 0o644)
	return replayResult{Path: path, Reproduced: out.Reproduced}
}

func cmdReplay(args []string) int {
	if len(args) < 1 {
		fmt.Println("usage: govc replay <replay.json>")
		return 2
	}
	b, err := os.ReadFile(args[0])
	if err != nil {
		fmt.Println(err)
		return 2
	}
	var rec map[string]interface{}
	if json.Unmarshal(b, &rec) != nil {
		fmt.Println("bad replay file")
		return 2
	}
	fmt.Printf("obligation: %v\nclause: %v\nsolver: %v (%v)\n", rec["obligation"], rec["clause"], rec["solver"], rec["solver_status"])
	if rp, ok := rec["replay"].(map[string]interface{}); ok {
		fmt.Printf("reproduced: %v\nreason: %v\ninputs: %v\nobserved: %v\nexpected: %v\n", rp["reproduced"], rp["reason"], rp["inputs"], rp["observed"], rp["expected"])
		if src, ok := rp["test_source"].(string); ok && src != "" {
			// re-run the recorded harness against the current tree
			fmt.Println("--- re-running recorded harness ---")
			prop, _ := rec["property"].(string)
			fmt.Println("(re-run the check to regenerate: /verif/bin/govc check -property " + prop + ")")
		}
	}
	return 0
}

// scenarioReplay runs the scenario test recorded in findings/index.json for an obligation against the
// tree under test (go test -overlay: nothing is written to the repository).
func scenarioReplay(verif, repo, obligation, scratch string) *eng.ReplayOutcome {
	b, err := os.ReadFile(filepath.Join(verif, "findings", "index.json"))
	if err != nil {
		return nil
	}
	var idx map[string]json.RawMessage
	if json.Unmarshal(b, &idx) != nil {
		return nil
	}
	raw, ok := idx[obligation]
	if !ok {
		return nil
	}
	var ent struct{ File, Test string }
	if json.Unmarshal(raw, &ent) != nil || ent.File == "" {
		return nil
	}
	src, err := os.ReadFile(filepath.Join(verif, "findings", ent.File))
	if err != nil {
		return nil
	}
	dir := ""
	for _, ln := range strings.Split(string(src), "\n") {
		if strings.HasPrefix(ln, "// dir:") {
			dir = strings.TrimSpace(strings.TrimPrefix(ln, "// dir:"))
			break
		}
	}
	if dir == "" {
		return nil
	}
	pkgDir := filepath.Join(repo, dir)
	ov := map[string]map[string]string{"Replace": {filepath.Join(pkgDir, "zz_verif_scenario_test.go"): filepath.Join(verif, "findings", ent.File)}}
	ovb, _ := json.Marshal(ov)
	ovFile := filepath.Join(scratch, "scenario_overlay.json")
	os.WriteFile(ovFile, ovb, 0o644)
	ctx, cancel := context.WithTimeout(context.Background(), 180*time.Second)
	defer cancel()
	cmd := exec.CommandContext(ctx, "go", "test", "-overlay", ovFile, "-vet=off", "-count=1", "-timeout", "90s", "-run", "^"+ent.Test+"$", ".")
	cmd.Dir = pkgDir
	var env []string
	for _, kv := range os.Environ() {
		if strings.HasPrefix(kv, "GOSUMDB=") || strings.HasPrefix(kv, "GOTOOLCHAIN=") || strings.HasPrefix(kv, "GOFLAGS=") {
			continue
		}
		env = append(env, kv)
	}
	cmd.Env = append(env, "GOFLAGS=-mod=mod", "GOPROXY=off")
	var buf bytes.Buffer
	cmd.Stdout = &buf
	cmd.Stderr = &buf
	runErr := cmd.Run()
	txt := buf.String()
	if len(txt) > 6000 {
		txt = txt[:6000]
	}
	out := &eng.ReplayOutcome{Attempted: true, TestSource: string(src), Output: txt,
		Command: "cd " + pkgDir + " && go test -overlay <findings/" + ent.File + "> -vet=off -count=1 -run ^" + ent.Test + "$ ."}
	if runErr != nil && strings.Contains(txt, "--- FAIL") {
		out.Reproduced = true
		out.Observed = firstFailLine(txt)
		out.Expected = "the scenario test passes on a tree where the clause holds"
	}
	return out
}

func firstFailLine(txt string) string {
	lines := strings.Split(txt, "\n")
	for i, ln := range lines {
		if strings.HasPrefix(strings.TrimSpace(ln), "--- FAIL") && i+1 < len(lines) {
			return strings.TrimSpace(ln) + " " + strings.TrimSpace(lines[i+1])
		}
	}
	return ""
}
