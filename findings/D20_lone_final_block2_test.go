// dir: net/blockwise
// Demonstration of defect D20 (C04): the final block (M = 0, NUM > 0) of a block-wise DOWNLOAD for which
// no body is being assembled any more is handed to the caller as the complete response. That happens when
// the partially assembled body expired between two blocks (a block delayed for longer than the block-wise
// expiration while the request itself has no deadline) or when the earlier blocks were lost and a late
// copy of the last one arrives. D16 closed this for uploads (Block1); the download direction (Block2) was
// still open. A caller that asked for the whole resource must never get its tail as "the" body. A final
// block is still delivered on its own when the request itself asked for exactly that block.
// Fails before the "fix:" commit recorded in KNOWN_FINDINGS.txt, passes after it.
package blockwise

import (
	"bytes"
	"context"
	"testing"
	"time"

	"github.com/plgd-dev/go-coap/v3/message"
	"github.com/plgd-dev/go-coap/v3/message/codes"
	"github.com/plgd-dev/go-coap/v3/message/pool"
	"github.com/plgd-dev/go-coap/v3/net/responsewriter"
)

type d20Client struct{ p *pool.Pool }

func (c *d20Client) AcquireMessage(ctx context.Context) *pool.Message { return c.p.AcquireMessage(ctx) }
func (c *d20Client) ReleaseMessage(m *pool.Message)                   { c.p.ReleaseMessage(m) }

func d20Block(t *testing.T, cc *d20Client, token message.Token, num int64, more bool, payload string) *pool.Message {
	t.Helper()
	v, err := EncodeBlockOption(SZX16, num, more)
	if err != nil {
		t.Fatal(err)
	}
	m := cc.AcquireMessage(context.Background())
	m.SetCode(codes.Content)
	m.SetToken(token)
	m.SetOptionUint32(message.Block2, v)
	m.SetBody(bytes.NewReader([]byte(payload)))
	return m
}

func TestD20LoneFinalBlockOfDownloadIsNotTheBody(t *testing.T) {
	cc := &d20Client{p: pool.New(0, 0)}
	token := message.Token{0xd2, 0x0}

	run := func(name string, askForBlock int64, wantDelivered bool) {
		b := New(cc, 30*time.Millisecond, func(error) {}, nil)
		req := cc.AcquireMessage(context.Background()) // no deadline
		req.SetCode(codes.GET)
		req.SetToken(token)
		req.MustSetPath("/big")
		if askForBlock >= 0 {
			v, err := EncodeBlockOption(SZX16, askForBlock, false)
			if err != nil {
				t.Fatal(err)
			}
			req.SetOptionUint32(message.Block2, v)
		}
		delivered := ""
		next := func(_ *responsewriter.ResponseWriter[*d20Client], m *pool.Message) {
			body, _ := m.ReadBody()
			delivered = string(body)
		}
		_, _ = b.Do(req, SZX16, 1152, func(*pool.Message) (*pool.Message, error) {
			if askForBlock < 0 {
				// block 0 and block 1 of a 40-byte body arrive and are assembled ...
				for i, part := range []string{"0123456789abcdef", "ghijklmnopqrstuv"} {
					w := responsewriter.New(cc.AcquireMessage(context.Background()), cc)
					b.Handle(w, d20Block(t, cc, token, int64(i), true, part), SZX16, 1152, next)
				}
				// ... the last block is delayed for longer than the block-wise expiration
				time.Sleep(60 * time.Millisecond)
			}
			w := responsewriter.New(cc.AcquireMessage(context.Background()), cc)
			b.Handle(w, d20Block(t, cc, token, 2, false, "lasteigh"), SZX16, 1152, next)
			return nil, context.Canceled
		})
		switch {
		case !wantDelivered && delivered != "" && delivered != "0123456789abcdefghijklmnopqrstuvlasteigh":
			t.Errorf("%s: the caller got %q as the complete body of a 40-byte resource", name, delivered)
		case wantDelivered && delivered != "lasteigh":
			t.Errorf("%s: the block the request asked for was not delivered (got %q)", name, delivered)
		}
	}
	run("whole resource requested, assembly expired before the last block", -1, false)
	run("exactly block 2 requested", 2, true)
}
