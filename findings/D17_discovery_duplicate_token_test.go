// dir: udp/server
// Demonstration of defect D17 (C03): a discovery request whose token is already used by a running
// discovery is rejected (ErrKeyAlreadyExists), but before the token is checked the rejected call has
// overwritten - and on its way out deletes - the running discovery's entry in the table of sent
// multicast requests, which the block-wise layer needs to pair that discovery's answers with its
// request. Fails before the "fix:" commit recorded in KNOWN_FINDINGS.txt, passes after it.
package server

import (
	"context"
	"testing"
	"time"

	"github.com/plgd-dev/go-coap/v3/message"
	"github.com/plgd-dev/go-coap/v3/message/codes"
	"github.com/plgd-dev/go-coap/v3/message/pool"
	coapNet "github.com/plgd-dev/go-coap/v3/net"
	"github.com/plgd-dev/go-coap/v3/udp/client"
)

func TestD17RejectedDiscoveryLeavesRunningOneAlone(t *testing.T) {
	l, err := coapNet.NewListenUDP("udp4", "127.0.0.1:0")
	if err != nil {
		t.Fatal(err)
	}
	defer l.Close()
	s := New()
	go func() { _ = s.Serve(l) }()
	defer s.Stop()

	token := message.Token{0xd1, 0x7}
	newReq := func(ctx context.Context) *pool.Message {
		r := s.cfg.MessagePool.AcquireMessage(ctx)
		r.SetCode(codes.GET)
		r.SetToken(token)
		r.SetType(message.NonConfirmable)
		r.SetMessageID(11)
		r.MustSetPath("/oic/res")
		return r
	}
	ctx1, cancel1 := context.WithCancel(context.Background())
	defer cancel1()
	first := newReq(ctx1)
	done := make(chan error, 1)
	go func() {
		done <- s.DiscoveryRequest(first, "127.0.0.1:9", func(*client.Conn, *pool.Message) {})
	}()
	// wait until the first discovery is registered
	deadline := time.Now().Add(2 * time.Second)
	for {
		if _, ok := s.multicastHandler.Load(token.Hash()); ok {
			break
		}
		if time.Now().After(deadline) {
			t.Fatal("first discovery never registered")
		}
		time.Sleep(5 * time.Millisecond)
	}
	ctx2, cancel2 := context.WithTimeout(context.Background(), time.Second)
	defer cancel2()
	if err := s.DiscoveryRequest(newReq(ctx2), "127.0.0.1:9", func(*client.Conn, *pool.Message) {}); err == nil {
		t.Fatal("a discovery with a token in use must be rejected")
	}
	got, ok := s.multicastRequests.Load(token.Hash())
	if !ok {
		t.Errorf("the rejected discovery removed the running discovery's entry from the table of sent requests")
	} else if got != first {
		t.Errorf("the rejected discovery replaced the running discovery's request in the table of sent requests")
	}
	cancel1()
	<-done
}
