// dir: net/observation
// Demonstration of defect D14 (C08/C03): registering an observation with a token that is already being
// observed is rejected (ErrKeyAlreadyExists), but the deferred clean-up of the rejected registration removes
// the table entry of the FIRST registration, whose callback then never sees another notification.
// Fails before the "fix:" commit recorded in KNOWN_FINDINGS.txt, passes after it.
package observation_test

import (
	"context"
	"testing"

	"github.com/plgd-dev/go-coap/v3/message"
	"github.com/plgd-dev/go-coap/v3/message/codes"
	"github.com/plgd-dev/go-coap/v3/message/pool"
	"github.com/plgd-dev/go-coap/v3/net/observation"
	"github.com/plgd-dev/go-coap/v3/net/responsewriter"
)

type d14Client struct {
	p *pool.Pool
	h *observation.Handler[*d14Client]
}

func (c *d14Client) Context() context.Context { return context.Background() }
func (c *d14Client) WriteMessage(req *pool.Message) error {
	// the peer answers the registration at once with 2.05 + Observe
	r := c.p.AcquireMessage(context.Background())
	r.SetCode(codes.Content)
	r.SetToken(req.Token())
	r.SetObserve(2)
	c.h.Handle(nil, r)
	return nil
}
func (c *d14Client) ReleaseMessage(m *pool.Message)                    { c.p.ReleaseMessage(m) }
func (c *d14Client) AcquireMessage(ctx context.Context) *pool.Message { return c.p.AcquireMessage(ctx) }

func TestD14DuplicateTokenKeepsFirstObservation(t *testing.T) {
	c := &d14Client{p: pool.New(0, 0)}
	fellThrough := 0
	c.h = observation.NewHandler(c, func(*responsewriter.ResponseWriter[*d14Client], *pool.Message) { fellThrough++ }, nil)
	token := message.Token{1, 2, 3, 4}
	newReq := func() *pool.Message {
		r := c.p.AcquireMessage(context.Background())
		r.SetCode(codes.GET)
		r.SetToken(token)
		r.SetObserve(0)
		r.MustSetPath("/a")
		return r
	}
	got := 0
	first, err := c.h.NewObservation(newReq(), func(*pool.Message) { got++ })
	if err != nil {
		t.Fatalf("first registration: %v", err)
	}
	if _, err = c.h.NewObservation(newReq(), func(*pool.Message) { t.Error("rejected registration got a notification") }); err == nil {
		t.Fatal("second registration with the same token must be rejected")
	}
	if first.Canceled() {
		t.Errorf("rejecting the duplicate unregistered the first observation")
	}
	before := got
	n := c.p.AcquireMessage(context.Background())
	n.SetCode(codes.Content)
	n.SetToken(token)
	n.SetObserve(3)
	c.h.Handle(nil, n)
	if got != before+1 || fellThrough != 0 {
		t.Errorf("notification after the rejected duplicate: callback calls %d -> %d, fell through to next handler %d times", before, got, fellThrough)
	}
}
