// dir: message
// Demonstration of defect D2 (C15): Options.SetPath removes the old path options from the shared backing
// array BEFORE it checks that the buffer is big enough; when it then refuses with ErrTooSmall the caller
// gets its list back with the original length but shifted contents (an option duplicated, the old path
// half gone). pool.Message retries with a bigger buffer on exactly this error and so works on a corrupted
// list. Fails before the "fix:" commit recorded in KNOWN_FINDINGS.txt, passes after it.
package message_test

import (
	"errors"
	"testing"

	"github.com/plgd-dev/go-coap/v3/message"
)

func TestD2SetPathRefusalLeavesOptionsAlone(t *testing.T) {
	opts := make(message.Options, 0, 8)
	buf := make([]byte, 64)
	opts, n, err := opts.SetPath(buf, "/a/b")
	if err != nil {
		t.Fatal(err)
	}
	opts, _, err = opts.SetContentFormat(buf[n:], message.AppJSON)
	if err != nil {
		t.Fatal(err)
	}
	before := make([]message.OptionID, len(opts))
	for i := range opts {
		before[i] = opts[i].ID
	}
	got, _, err := opts.SetPath(make([]byte, 1), "/cccccccc") // buffer too small: must refuse and change nothing
	if !errors.Is(err, message.ErrTooSmall) {
		t.Fatalf("expected ErrTooSmall, got %v", err)
	}
	if len(got) != len(before) {
		t.Fatalf("refused SetPath returned %d options, had %d", len(got), len(before))
	}
	for i := range got {
		if got[i].ID != before[i] {
			t.Errorf("option %d after a refused SetPath: ID %v, was %v (list %v)", i, got[i].ID, before[i], got)
		}
	}
	if p, err := got.Path(); err != nil || p != "/a/b" {
		t.Errorf("path after a refused SetPath: %q, %v; want /a/b", p, err)
	}
}
