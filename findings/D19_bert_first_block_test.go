// dir: net/blockwise
// Demonstration of defect D19 (C04): Do sends the first message of an upload with Block1 = (NUM 0, M = 1)
// whatever the body size. With BERT the first message carries up to bufferSize(BERT, maxMessageSize) bytes,
// i.e. several 1024-byte blocks: a body of more than 1024 bytes that FITS the first BERT message goes out
// whole but flagged "more blocks follow". The peer answers 2.31 Continue and waits for a block that does
// not exist, the sender finds nothing left to read, and an upload that could have completed in one message
// ends in an error/timeout. The M flag has to say whether bytes remain after this message.
// Fails before the "fix:" commit recorded in KNOWN_FINDINGS.txt, passes after it.
package blockwise

import (
	"bytes"
	"context"
	"io"
	"testing"
	"time"

	"github.com/plgd-dev/go-coap/v3/message"
	"github.com/plgd-dev/go-coap/v3/message/codes"
	"github.com/plgd-dev/go-coap/v3/message/pool"
)

type d19Client struct{ p *pool.Pool }

func (c *d19Client) AcquireMessage(ctx context.Context) *pool.Message { return c.p.AcquireMessage(ctx) }
func (c *d19Client) ReleaseMessage(m *pool.Message)                   { c.p.ReleaseMessage(m) }

func TestD19BertFirstBlockSaysWhetherMoreFollows(t *testing.T) {
	cc := &d19Client{p: pool.New(0, 0)}
	b := New(cc, time.Hour, func(error) {}, nil)
	for _, size := range []int{1500, 4096, 4097, 9000} {
		body := bytes.Repeat([]byte{'x'}, size)
		r := cc.AcquireMessage(context.Background())
		r.SetCode(codes.POST)
		r.SetToken(message.Token{1, byte(size)})
		r.MustSetPath("/up")
		r.SetBody(bytes.NewReader(body))
		const maxMessageSize = 4096 // the first BERT message carries up to 4 blocks of 1024 bytes
		_, err := b.Do(r, SZXBERT, maxMessageSize, func(req *pool.Message) (*pool.Message, error) {
			v, errB := req.GetOptionUint32(message.Block1)
			if errB != nil {
				t.Fatalf("size %d: first message without Block1: %v", size, errB)
			}
			_, num, more, errD := DecodeBlockOption(v)
			if errD != nil || num != 0 {
				t.Fatalf("size %d: first message: num=%d err=%v", size, num, errD)
			}
			sent, errR := io.ReadAll(req.Body())
			if errR != nil {
				t.Fatal(errR)
			}
			wantMore := len(sent) < size
			if more != wantMore {
				t.Errorf("body of %d bytes: the first message carries %d of them and says more=%v, want more=%v", size, len(sent), more, wantMore)
			}
			resp := cc.AcquireMessage(context.Background())
			resp.SetCode(codes.Changed)
			resp.SetToken(req.Token())
			return resp, nil
		})
		if err != nil {
			t.Fatalf("size %d: %v", size, err)
		}
	}
}
