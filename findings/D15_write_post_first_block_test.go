// dir: net/blockwise
// Demonstration of defect D15 (C04): a one-way block-wise write (WriteMessage) of a POST/PUT never sends
// the first block of the body. createSendingMessage skips one buffer for Block1 because, when it is
// called for a Continue answer, NUM is the block the peer has acknowledged; WriteMessage calls it with
// NUM = 0 meaning "start", so the first message on the wire carries block 1 (bytes 16..31 for SZX 16)
// and block 0 is lost. Fails before the "fix:" commit recorded in KNOWN_FINDINGS.txt, passes after it.
package blockwise

import (
	"bytes"
	"context"
	"io"
	"testing"
	"time"

	"github.com/plgd-dev/go-coap/v3/message"
	"github.com/plgd-dev/go-coap/v3/message/codes"
	"github.com/plgd-dev/go-coap/v3/message/pool"
)

type d15Client struct{ p *pool.Pool }

func (c *d15Client) AcquireMessage(ctx context.Context) *pool.Message { return c.p.AcquireMessage(ctx) }
func (c *d15Client) ReleaseMessage(m *pool.Message)                   { c.p.ReleaseMessage(m) }

func TestD15WritePostStartsWithFirstBlock(t *testing.T) {
	cc := &d15Client{p: pool.New(0, 0)}
	b := New(cc, time.Hour, func(error) {}, nil)
	body := make([]byte, 64)
	for i := range body {
		body[i] = byte(i + 1)
	}
	req := cc.AcquireMessage(context.Background())
	req.SetCode(codes.POST)
	req.SetToken(message.Token{7})
	req.MustSetPath("/up")
	req.SetBody(bytes.NewReader(body))
	var gotNum int64 = -1
	var gotBody []byte
	err := b.WriteMessage(req, SZX16, 1152, func(r *pool.Message) error {
		v, err := r.GetOptionUint32(message.Block1)
		if err != nil {
			return err
		}
		_, num, _, err := DecodeBlockOption(v)
		if err != nil {
			return err
		}
		gotNum = num
		if r.Body() != nil {
			gotBody, _ = io.ReadAll(r.Body())
		}
		return nil
	})
	if err != nil {
		t.Fatal(err)
	}
	if gotNum != 0 || !bytes.Equal(gotBody, body[:16]) {
		t.Errorf("first message of the block-wise write: block %d with bytes %v; want block 0 with bytes %v", gotNum, gotBody, body[:16])
	}
}
