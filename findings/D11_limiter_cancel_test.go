// dir: net/client/limitParallelRequests
// Demonstration of defect D11 (C16): a waiter whose context is cancelled gives away a slot it does not
// own - the next waiter is admitted while the slot's owner is still in flight, so the per-endpoint limit
// is exceeded. Fails before the "fix:" commit recorded in KNOWN_FINDINGS.txt, passes after it.
package limitparallelrequests_test

import (
	"context"
	"sync/atomic"
	"testing"
	"time"

	"github.com/plgd-dev/go-coap/v3/message/pool"
	limitparallelrequests "github.com/plgd-dev/go-coap/v3/net/client/limitParallelRequests"
)

func TestD11CancelledWaiterKeepsLimit(t *testing.T) {
	var inFlight, maxInFlight atomic.Int32
	release := make(chan struct{})
	started := make(chan struct{}, 8)
	do := func(req *pool.Message) (*pool.Message, error) {
		n := inFlight.Add(1)
		for {
			m := maxInFlight.Load()
			if n <= m || maxInFlight.CompareAndSwap(m, n) {
				break
			}
		}
		started <- struct{}{}
		<-release
		inFlight.Add(-1)
		return nil, nil
	}
	l := limitparallelrequests.New(0, 1, do, nil) // per-endpoint limit 1, no total limit
	p := pool.New(0, 0)
	newReq := func(ctx context.Context) *pool.Message {
		r := p.AcquireMessage(ctx)
		r.MustSetPath("/a")
		return r
	}
	done := make(chan struct{}, 8)
	run := func(ctx context.Context) {
		go func() {
			_, _ = l.Do(newReq(ctx))
			done <- struct{}{}
		}()
	}
	run(context.Background()) // A: admitted, blocks in do
	<-started
	run(context.Background()) // B: waits
	time.Sleep(50 * time.Millisecond)
	ctxC, cancelC := context.WithCancel(context.Background())
	run(ctxC) // C: waits behind B
	time.Sleep(50 * time.Millisecond)
	cancelC() // C gives up while A is still in flight
	<-done    // C returned
	select {
	case <-started:
		t.Errorf("a waiter was admitted while the only slot is still taken: %d requests in flight, limit 1", maxInFlight.Load())
	case <-time.After(200 * time.Millisecond):
	}
	close(release)
	<-done
	<-done
	if m := maxInFlight.Load(); m > 1 {
		t.Errorf("max requests in flight for one endpoint = %d, limit 1", m)
	}
}
