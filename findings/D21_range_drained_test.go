package sync

// D21 (C14): Map.Range hands its callback entries that are no longer in the map.
// REPAIRED in /repo by 9664c20 (LoadAndDeleteAll empties the map in place and returns a copy): this test fails
// on the tree before that commit and passes since. The description below is of the code before the repair.
// Range evaluates m.data once (`for key, value := range m.data`) and releases the lock around every
// callback. LoadAndDeleteAll replaces m.data by a new map and hands the old one to its caller. A drain
// that happens while a Range is in progress (here: from inside the first callback, where the lock is not
// held; any other goroutine can do the same) leaves Range iterating the drained map, which now belongs
// to the caller of LoadAndDeleteAll: every further callback receives an entry that is not in the map
// in the critical section that fetched it, and the iteration reads a map that m.mutex no longer protects.
//
// Run: cp /verif/findings/D21_range_drained_test.go /repo/pkg/sync/zz_d21_test.go (remove it afterwards); go test -vet=off -count=1 -run TestD21 ./pkg/sync/

import "testing"

func TestD21RangeAfterDrainSeesOnlyEntriesOfTheMap(t *testing.T) {
	m := NewMap[int, int]()
	for i := 0; i < 8; i++ {
		m.Store(i, i)
	}
	calls, stale := 0, 0
	drained := false
	m.Range(func(key, value int) bool {
		calls++
		if drained {
			if _, ok := m.Load(key); !ok {
				stale++ // handed an entry that is not in the map
			}
		}
		if !drained {
			drained = true
			_ = m.LoadAndDeleteAll() // the map is empty from here on
		}
		return true
	})
	if stale > 0 {
		t.Fatalf("Range made %d calls, %d of them for entries that were not in the map any more", calls, stale)
	}
}
