// dir: net/blockwise
// Demonstration of defect D16 (C04): the final block (M = 0) of a block-wise UPLOAD whose earlier blocks
// never arrived (or a late duplicate of the final block, after the transfer completed and its state was
// dropped) is handed to the application as if it were the complete request body. RFC 7959 section 2.5
// asks for 4.08 Request Entity Incomplete. Fails before the "fix:" commit recorded in
// KNOWN_FINDINGS.txt, passes after it.
package blockwise

import (
	"bytes"
	"context"
	"testing"
	"time"

	"github.com/plgd-dev/go-coap/v3/message"
	"github.com/plgd-dev/go-coap/v3/message/codes"
	"github.com/plgd-dev/go-coap/v3/message/pool"
	"github.com/plgd-dev/go-coap/v3/net/responsewriter"
)

type d16Client struct{ p *pool.Pool }

func (c *d16Client) AcquireMessage(ctx context.Context) *pool.Message { return c.p.AcquireMessage(ctx) }
func (c *d16Client) ReleaseMessage(m *pool.Message)                   { c.p.ReleaseMessage(m) }

func TestD16LoneFinalBlockOfUploadIsNotDelivered(t *testing.T) {
	cc := &d16Client{p: pool.New(0, 0)}
	b := New(cc, time.Hour, func(error) {}, nil)
	block, err := EncodeBlockOption(SZX16, 2, false) // third and last block of a 40-byte body; blocks 0 and 1 never arrived
	if err != nil {
		t.Fatal(err)
	}
	r := cc.AcquireMessage(context.Background())
	r.SetCode(codes.POST)
	r.SetToken(message.Token{9})
	r.MustSetPath("/up")
	r.SetOptionUint32(message.Block1, block)
	r.SetBody(bytes.NewReader([]byte("lasteigh")))
	resp := cc.AcquireMessage(context.Background())
	w := responsewriter.New(resp, cc)
	delivered := 0
	b.Handle(w, r, SZX16, 1152, func(_ *responsewriter.ResponseWriter[*d16Client], m *pool.Message) {
		delivered++
		body, _ := m.ReadBody()
		t.Errorf("a lone final block was delivered to the application as a complete request: body %q", body)
	})
	if delivered == 0 && w.Message().Code() != codes.RequestEntityIncomplete {
		t.Errorf("lone final block: answered with %v, want 4.08 Request Entity Incomplete", w.Message().Code())
	}
}
