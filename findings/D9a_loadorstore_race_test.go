// dir: pkg/sync
// Demonstrates D9a (fixed): two concurrent LoadOrStore calls on an absent key could both report "stored".
// Run: copy into /repo/pkg/sync on the tree before the fix commit and `go test -run TestD9a -count=1 .`
package sync

import (
	gosync "sync"
	"testing"
)

func TestD9aLoadOrStoreBothStore(t *testing.T) {
	bad := 0
	for it := 0; it < 300000 && bad == 0; it++ {
		m := NewMap[int, int]()
		var wg gosync.WaitGroup
		res := make([]bool, 2)
		start := make(chan struct{})
		for g := 0; g < 2; g++ {
			g := g
			wg.Add(1)
			go func() {
				defer wg.Done()
				<-start
				_, loaded := m.LoadOrStore(1, g+10)
				res[g] = loaded
			}()
		}
		close(start)
		wg.Wait()
		if !res[0] && !res[1] {
			bad++
		}
	}
	if bad > 0 {
		t.Fatalf("both concurrent LoadOrStore calls reported stored (loaded=false)")
	}
}
