// dir: message/pool
// Demonstration of defect D8 (C02): a pooled message whose option list has capacity 0 (after
// SetMessage with a message without options; the capacity survives Reset) never finishes decoding a
// message that carries an option: the retry loop re-allocates make(Options, 0, 0*2) forever.
// Hangs (fails by timeout) before the "fix:" commit recorded in KNOWN_FINDINGS.txt, passes after it.
package pool_test

import (
	"context"
	"testing"
	"time"

	"github.com/plgd-dev/go-coap/v3/message"
	"github.com/plgd-dev/go-coap/v3/message/codes"
	"github.com/plgd-dev/go-coap/v3/message/pool"
	"github.com/plgd-dev/go-coap/v3/udp/coder"
)

func TestD8DecodeTerminatesWithEmptyOptionCapacity(t *testing.T) {
	src := pool.NewMessage(context.Background())
	src.SetCode(codes.GET)
	src.SetType(message.Confirmable)
	src.SetMessageID(7)
	src.MustSetPath("/a")
	data, err := src.MarshalWithEncoder(coder.DefaultCoder)
	if err != nil {
		t.Fatal(err)
	}
	dst := pool.NewMessage(context.Background())
	dst.SetMessage(message.Message{}) // option list now has capacity 0
	done := make(chan error, 1)
	go func() {
		_, err := dst.UnmarshalWithDecoder(coder.DefaultCoder, append([]byte(nil), data...))
		done <- err
	}()
	select {
	case err := <-done:
		if err != nil {
			t.Fatalf("decode: %v", err)
		}
		if p, err := dst.Path(); err != nil || p != "/a" {
			t.Fatalf("decoded path %q, %v", p, err)
		}
	case <-time.After(2 * time.Second):
		t.Fatal("UnmarshalWithDecoder did not return within 2 s: the option-capacity retry loop does not terminate")
	}
}
