// dir: udp/client
// Demonstration of defect D10 (C05): duplicates of a NON request whose reply was produced re-execute the handler,
// because the reply is cached under the endpoint's own message ID instead of the request's.
// Fails before the "fix:" commit recorded in KNOWN_FINDINGS.txt, passes after it.
package client

import (
	"bytes"
	"context"
	"net"
	"sync"
	"sync/atomic"
	"testing"

	"github.com/plgd-dev/go-coap/v3/message"
	"github.com/plgd-dev/go-coap/v3/message/codes"
	"github.com/plgd-dev/go-coap/v3/message/pool"
	coapNet "github.com/plgd-dev/go-coap/v3/net"
	"github.com/plgd-dev/go-coap/v3/net/responsewriter"
)


type d10Reply struct {
	typ     message.Type
	mid     int32
	code    codes.Code
	token   []byte
	payload []byte
}

type d10Session struct {
	ctx    context.Context
	cancel context.CancelFunc
	mu     sync.Mutex
	out    []d10Reply
}

func (s *d10Session) Context() context.Context { return s.ctx }
func (s *d10Session) Close() error             { s.cancel(); return nil }
func (s *d10Session) MaxMessageSize() uint32   { return 64 * 1024 }
func (s *d10Session) RemoteAddr() net.Addr {
	return &net.UDPAddr{IP: net.IPv4(127, 0, 0, 1), Port: 5683}
}

func (s *d10Session) LocalAddr() net.Addr {
	return &net.UDPAddr{IP: net.IPv4(127, 0, 0, 1), Port: 5684}
}
func (s *d10Session) NetConn() net.Conn { return nil }
func (s *d10Session) WriteMessage(req *pool.Message) error {
	var payload []byte
	if req.Body() != nil {
		var err error
		payload, err = req.ReadBody()
		if err != nil {
			return err
		}
	}
	s.mu.Lock()
	defer s.mu.Unlock()
	s.out = append(s.out, d10Reply{
		typ:     req.Type(),
		mid:     req.MessageID(),
		code:    req.Code(),
		token:   append([]byte(nil), req.Token()...),
		payload: append([]byte(nil), payload...),
	})
	return nil
}

func (s *d10Session) WriteMulticastMessage(*pool.Message, *net.UDPAddr, ...coapNet.MulticastOption) error {
	return nil
}
func (s *d10Session) Run(*Conn) error                 { <-s.ctx.Done(); return nil }
func (s *d10Session) AddOnClose(EventFunc)            {}
func (s *d10Session) SetContextValue(k, v interface{}) {}
func (s *d10Session) Done() <-chan struct{}           { return s.ctx.Done() }


func TestD10NonDuplicateRunsHandlerOnce(t *testing.T) {
	ctx, cancel := context.WithCancel(context.Background())
	defer cancel()
	sess := &d10Session{ctx: ctx, cancel: cancel}
	var calls atomic.Int32
	cfg := DefaultConfig
	cfg.Handler = func(w *responsewriter.ResponseWriter[*Conn], _ *pool.Message) {
		n := calls.Add(1)
		if err := w.SetResponse(codes.Content, message.TextPlain, bytes.NewReader([]byte{byte('0' + n)})); err != nil {
			t.Errorf("SetResponse: %v", err)
		}
	}
	cc := NewConnWithOpts(sess, &cfg)
	const mid = 0x2a17
	token := message.Token{0xca, 0xfe, 0x01}
	for i := 0; i < 3; i++ {
		m := cc.AcquireMessage(ctx)
		m.SetCode(codes.GET)
		m.SetType(message.NonConfirmable)
		m.SetMessageID(mid)
		m.SetToken(token)
		m.MustSetPath("/seed")
		cc.ProcessReceivedMessage(m)
	}
	if got := calls.Load(); got != 1 {
		t.Errorf("handler executed %d times for 3 copies of one NON request, want exactly 1", got)
	}
	sess.mu.Lock()
	defer sess.mu.Unlock()
	if len(sess.out) != 3 {
		t.Fatalf("got %d replies, want 3", len(sess.out))
	}
	for i, r := range sess.out {
		if r.code != codes.Content || !bytes.Equal(r.token, token) || !bytes.Equal(r.payload, []byte("1")) {
			t.Errorf("reply %d = %+v, want 2.05 token=%x payload=\"1\"", i, r, []byte(token))
		}
	}
}
