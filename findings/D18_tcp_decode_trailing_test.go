// dir: tcp/coder
// Demonstration of defect D18 (C02, C01): the stream decoder checks that the buffer holds at least the
// frame the header declares, and then parses EVERYTHING that follows the header, not the declared frame.
// A buffer that holds a complete frame followed by more bytes (the next frame of the stream, as in any
// read that returns more than one message) is decoded as ONE message whose payload swallows the following
// bytes, and the reported consumed length is the whole buffer. RFC 8323 section 3.2: the Len field gives
// the size of the message. Fails before the "fix:" commit recorded in KNOWN_FINDINGS.txt, passes after it.
package coder

import (
	"bytes"
	"testing"

	"github.com/plgd-dev/go-coap/v3/message"
	"github.com/plgd-dev/go-coap/v3/message/codes"
)

func TestD18DecodeStopsAtTheEndOfTheFrame(t *testing.T) {
	first := message.Message{Code: codes.GET, Token: message.Token{7}, Payload: []byte("a")}
	second := message.Message{Code: codes.Content, Token: message.Token{8, 9}, Payload: []byte("next")}
	enc := func(m message.Message) []byte {
		n, err := DefaultCoder.Size(m)
		if err != nil {
			t.Fatal(err)
		}
		b := make([]byte, n)
		if _, err = DefaultCoder.Encode(m, b); err != nil {
			t.Fatal(err)
		}
		return b
	}
	f1, f2 := enc(first), enc(second)
	stream := append(append([]byte{}, f1...), f2...)

	var got message.Message
	n, err := DefaultCoder.Decode(stream, &got)
	if err != nil {
		t.Fatalf("the first frame is complete, decoding it must succeed: %v", err)
	}
	if n != len(f1) {
		t.Errorf("consumed %d bytes, the frame has %d", n, len(f1))
	}
	if !bytes.Equal(got.Payload, first.Payload) {
		t.Errorf("payload %q, the frame carries %q (the bytes of the next frame were swallowed)", got.Payload, first.Payload)
	}
	if n == len(f1) {
		var got2 message.Message
		n2, err2 := DefaultCoder.Decode(stream[n:], &got2)
		if err2 != nil || n2 != len(f2) || got2.Code != second.Code || !bytes.Equal(got2.Payload, second.Payload) {
			t.Errorf("second frame: n=%d err=%v code=%v payload=%q", n2, err2, got2.Code, got2.Payload)
		}
	}
}
