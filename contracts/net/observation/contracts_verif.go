//go:build verif

// Contracts for package observation (checked by /verif/govc; comment-only, compiled only with -tags verif).
package observation

// ---- C08: RFC 7641 section 3.4 freshness --------------------------------------------------
//
//   (V1 < V2 and V2 - V1 < 2^23) or (V1 > V2 and V1 - V2 > 2^23) or (T2 > T1 + 128 seconds)
//
// over the mathematical integers (the sequence numbers are passed as uint32; the RFC's 24-bit
// values are a subset). Durations are nanoseconds.
//
//@ spec rfc7641Fresh(v1 int, v2 int, t1 int, t2 int) bool = (v1 < v2 && v2 - v1 < 8388608) || (v1 > v2 && v1 - v2 > 8388608) || (t2 > t1 + 128000000000)
//
//@ func ValidSequenceNumber(oldValue uint32, newValue uint32, lastEventOccurs time.Time, now time.Time) (r bool)
//@   ensures [rfc] r <==> rfc7641Fresh(oldValue, newValue, lastEventOccurs, now)
