//go:build verif

// Contracts for package observation (checked by /verif/govc; comment-only, compiled only with -tags verif).
package observation

// ---- C08: RFC 7641 section 3.4 freshness --------------------------------------------------
//
//   (V1 < V2 and V2 - V1 < 2^23) or (V1 > V2 and V1 - V2 > 2^23) or (T2 > T1 + 128 seconds)
//
// over the mathematical integers (the sequence numbers are passed as uint32; the RFC's 24-bit
// values are a subset). Durations are nanoseconds.
//
//@ spec rfc7641Fresh(v1 int, v2 int, t1 int, t2 int) bool = (v1 < v2 && v2 - v1 < 8388608) || (v1 > v2 && v1 - v2 > 8388608) || (t2 > t1 + 128000000000)
//
//@ func ValidSequenceNumber(oldValue uint32, newValue uint32, lastEventOccurs time.Time, now time.Time) (r bool)
//@   ensures [rfc] r <==> rfc7641Fresh(oldValue, newValue, lastEventOccurs, now)
//
// ---- C08: registration, dispatch and cancellation ------------------------------------------------------
//
// Assumed contracts (unverified surroundings):
//
//@ func (Client) WriteMessage(req *pool.Message) (err error)
//@   trusted
//
//@ func (Client) Context() (c context.Context)
//@   trusted
//
//@ func (Client) AcquireMessage(ctx context.Context) (m *pool.Message)
//@   trusted
//@   ensures m != nil
//
//@ func (Client) ReleaseMessage(msg *pool.Message)
//@   trusted
//
//@ func newObservation(req message.Message, observationHandler *Handler, observeFunc func(req *pool.Message), respObservationChan chan respObservationMessage) (o *Observation)
//@   trusted
//@   ensures o != nil && fresh(o)
//
//@ func (*Handler) pullOutObservation(key uint64) (o *Observation, ok bool)
//@   trusted
//
// cleanUp removes the observation's token from the table (at most once effective).
//
//@ func (*Observation) cleanUp() (ok bool)
//@   requires o != nil
//@   ensures [removes] callCount(pullOutObservation) == 1 && ok == callRes(pullOutObservation, 0, 1)
//
// NewObservation: the registration is in the table only while it is wanted - a registration that
// fails after it was entered is removed again, a duplicate token is rejected without touching the
// registration that owns the token, success needs a 2.05/2.03 answer, and a peer that answers
// without the Observe option ends the registration.
//
//@ func (*Handler) NewObservation(req *pool.Message, observeFunc func(req *pool.Message)) (o *Observation, err error)
//@   requires h != nil && req != nil && h.observations != nil
//@   modifies anything
//@   opaque-calls pure
//@   signal-channels
//@   lockinv [no-nil-observation] forall k int :: {present(h.observations.data, k)} present(h.observations.data, k) ==> h.observations.data[k] != nil
//@   ensures [exclusive-result] (o == nil) <==> (err != nil)
//@   ensures [registers-at-most-once] callCount(LoadOrStore) <= 1
//@   ensures [unregistered-failure-touches-nothing] notCalled(LoadOrStore) ==> err != nil && notCalled(cleanUp) && notCalled(WriteMessage)
//@   ensures [duplicate-token-rejected] called(LoadOrStore) && callRes(LoadOrStore, 0, 1) ==> err != nil && notCalled(WriteMessage) && notCalled(cleanUp)
//@   ensures [failed-registration-removed] called(LoadOrStore) && !callRes(LoadOrStore, 0, 1) && err != nil ==> called(cleanUp)
//@   ensures [request-sent-after-registration] called(WriteMessage) ==> callSeq(LoadOrStore, 0) < callSeq(WriteMessage, 0) && callArg(WriteMessage, 0, 1) == req
//@   ensures [success-needs-select] err == nil ==> called(select)
//@   ensures [success-needs-answer] called(select) && err == nil ==> callRes(select, 0, 0) == 2 && (callRes(select, 0, 4).code == 69 || callRes(select, 0, 4).code == 67)
//@   ensures [not-supported-ends-it] called(select) && err == nil && callRes(select, 0, 4).notSupported ==> called(cleanUp)
//@   ensures [supported-stays] called(select) && err == nil && !callRes(select, 0, 4).notSupported ==> notCalled(cleanUp)
//
//@ immutable Handler.observations
//
// The per-observation freshness state is guarded by its own mutex.
//
//@ guarded Observation.private.obsSequence by Observation.private.mutex
//@ guarded Observation.private.lastEvent by Observation.private.mutex
//@ guarded Observation.private.etag by Observation.private.mutex
//
// wantBeNotified: a notification is accepted iff it carries no Observe option or is fresher (RFC 7641)
// than the last ACCEPTED one; only an accepted one moves the last sequence number / time; all of this
// in one critical section, against the clock value read by this call.
//
//@ func (*Observation) wantBeNotified(r *pool.Message) (want bool)
//@   requires o != nil && r != nil
//@   opaque-calls pure
//@   witness t = now
//@   cs-pure o.private.obsSequence == old(o.private.obsSequence) && o.private.lastEvent == old(o.private.lastEvent)
//@   ensures [no-option-always] callRes(Observe, 0, 1) != nil ==> want
//@   atomic [accept-iff-fresh] callRes(Observe, 0, 1) == nil ==> (want <==> rfc7641Fresh(old(o.private.obsSequence), callRes(Observe, 0, 0), old(o.private.lastEvent), t))
//@   atomic [accepted-advances] callRes(Observe, 0, 1) == nil && want ==> o.private.obsSequence == callRes(Observe, 0, 0) && o.private.lastEvent == t
//@   atomic [rejected-keeps] callRes(Observe, 0, 1) == nil && !want ==> o.private.obsSequence == old(o.private.obsSequence) && o.private.lastEvent == old(o.private.lastEvent)
//
// handle: the callback runs iff the notification is wanted, at most once, with that very message.
//
//@ func (*Observation) handle(r *pool.Message)
//@   requires o != nil && r != nil
//@   modifies o.waitForResponse, o.respObservationChan
//@   opaque-calls pure
//@   ensures [asks-once] callCount(wantBeNotified) == 1 && callArg(wantBeNotified, 0, 1) == r
//@   ensures [callback-iff-wanted] called(observeFunc) <==> callRes(wantBeNotified, 0, 0)
//@   ensures [callback-once] callCount(observeFunc) <= 1 && (called(observeFunc) ==> callArg(observeFunc, 0, 0) == r)
//@   ensures [first-answer-once] !atomicLoad(o.waitForResponse) && (!old(atomicLoad(o.waitForResponse)) ==> notCalled(select))
//
// Handle: a message goes to the observation registered under the hash of ITS token and to nobody else;
// without such an observation it goes to the next handler.
//
//@ func (*Handler) Handle(w *responsewriter.ResponseWriter, r *pool.Message)
//@   requires h != nil && r != nil && h.observations != nil
//@   modifies anything
//@   opaque-calls pure
//@   lockinv [no-nil-observation] forall k int :: {present(h.observations.data, k)} present(h.observations.data, k) ==> h.observations.data[k] != nil
//@   ensures [keeps-writer] w != nil ==> w.response == old(w.response)
//@   ensures [lookup-by-own-token] callCount(Load) == 1 && callCount(Token) == 1 && callArg(Token, 0, 0) == r && callCount(Hash) == 1 && callArg(Hash, 0, 0) == callRes(Token, 0, 0) && callArg(Load, 0, 1) == callRes(Hash, 0, 0)
//@   ensures [routed] callRes(Load, 0, 1) ==> callCount(handle) == 1 && callArg(handle, 0, 0) == callRes(Load, 0, 0) && callArg(handle, 0, 1) == r && notCalled(next)
//@   ensures [otherwise-next] !callRes(Load, 0, 1) ==> callCount(next) == 1 && notCalled(handle)
//
//@ func (*Observation) client() (c C)
//@   trusted
//
//@ func (*Observation) etag() (e []byte)
//@   trusted
//
// Cancel: the table entry is removed before anything else happens; if it was gone already nothing is sent.
//
//@ func (*Observation) Cancel(ctx context.Context, opts ...message.Option) (err error)
//@   requires o != nil && o.observationHandler != nil
//@   modifies anything
//@   opaque-calls pure
//@   callback do: r1 != nil || r0 != nil
//@   ensures [removes-first] callCount(cleanUp) == 1 && callSeq(cleanUp, 0) == 0
//@   ensures [already-gone] !callRes(cleanUp, 0, 0) ==> err == nil && notCalled(do) && notCalled(AcquireMessage)
