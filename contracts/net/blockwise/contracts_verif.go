//go:build verif

// Contracts for package blockwise (checked by /verif/govc; comment-only, compiled only with -tags verif).
package blockwise

// ---- C19: RFC 7959 section 2.2 block option value -------------------------------------------
//
// For v < 2^24:  SZX = v mod 8,  M = (v div 8) mod 2,  NUM = v div 16  (NUM < 2^20).
// size(s) = 2^(s+4) for s <= 6, 1024 for BERT (s = 7).
//
//@ spec szxSize(s int) int = ite(s == 0, 16, ite(s == 1, 32, ite(s == 2, 64, ite(s == 3, 128, ite(s == 4, 256, ite(s == 5, 512, ite(s == 6, 1024, ite(s == 7, 1024, -1))))))))
//
//@ func (SZX) Size() (r int64)
//@   ensures [table] r == szxSize(s)
//
//@ func EncodeBlockOption(szx SZX, blockNumber int64, moreBlocksFollowing bool) (v uint32, err error)
//@   ensures [accepts-20bit] (szx <= 7 && 0 <= blockNumber && blockNumber < 1048576) ==> err == nil
//@   ensures [refuses] !(szx <= 7 && 0 <= blockNumber && blockNumber < 1048576) ==> err != nil
//@   ensures [layout] err == nil ==> v == 16*blockNumber + ite(moreBlocksFollowing, 8, 0) + szx
//@   ensures [err-kind] err != nil ==> (err == ErrInvalidSZX || err == ErrBlockNumberExceedLimit)
//
//@ func DecodeBlockOption(blockVal uint32) (szx SZX, blockNumber int64, moreBlocksFollowing bool, err error)
//@   ensures [defined-on-24bit] blockVal <= 16777215 ==> err == nil
//@   ensures [refuses-above] blockVal > 16777215 ==> err != nil
//@   ensures [fields] err == nil ==> szx == blockVal % 8 && blockNumber == blockVal / 16 && (moreBlocksFollowing <==> (blockVal / 8) % 2 == 1)
//
// BERT buffer sizing (RFC 8323 section 6): whole multiples of 1024 bounded by the maximum message size.
//
//@ func bufferSize(szx SZX, maxMessageSize uint32) (r int64)
//@   ensures [non-bert] szx < 7 ==> r == szxSize(szx)
//@   ensures [bert] szx == 7 ==> r % 1024 == 0 && 0 <= r && r <= maxMessageSize && maxMessageSize - r < 1024
//
//@ func getSzx(szx SZX, maxSzx SZX) (r SZX)
//@   ensures [min] r == min(szx, maxSzx)
//
// Mutual inverse, stated over the two contracts (callers only ever see the contracts):
//
//@ lemma decEnc(szx SZX, n int64, m bool, v uint32, e1 error, szx2 SZX, n2 int64, m2 bool, e2 error)
//@   requires contract.EncodeBlockOption(szx, n, m, v, e1) && e1 == nil
//@   requires contract.DecodeBlockOption(v, szx2, n2, m2, e2)
//@   ensures [dec-of-enc] e2 == nil && szx2 == szx && n2 == n && (m2 <==> m)
//
//@ lemma encDec(v uint32, szx SZX, n int64, m bool, e1 error, v2 uint32, e2 error)
//@   requires contract.DecodeBlockOption(v, szx, n, m, e1) && e1 == nil
//@   requires contract.EncodeBlockOption(szx, n, m, v2, e2)
//@   ensures [enc-of-dec] e2 == nil && v2 == v
//
// Assumed contract (block-wise reassembly is not under contract; it may run arbitrary handlers):
//
//@ func (*BlockWise) Handle(w *responsewriter.ResponseWriter, r *pool.Message, maxSZX SZX, maxMessageSize uint32, next func(*responsewriter.ResponseWriter, *pool.Message))
//@   trusted
//@   modifies anything
//@   ensures w != nil ==> w.response == old(w.response)
