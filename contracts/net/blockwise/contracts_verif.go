//go:build verif

// Contracts for package blockwise (checked by /verif/govc; comment-only, compiled only with -tags verif).
package blockwise

// ---- C19: RFC 7959 section 2.2 block option value -------------------------------------------
//
// For v < 2^24:  SZX = v mod 8,  M = (v div 8) mod 2,  NUM = v div 16  (NUM < 2^20).
// size(s) = 2^(s+4) for s <= 6, 1024 for BERT (s = 7).
//
//@ spec szxSize(s int) int = ite(s == 0, 16, ite(s == 1, 32, ite(s == 2, 64, ite(s == 3, 128, ite(s == 4, 256, ite(s == 5, 512, ite(s == 6, 1024, ite(s == 7, 1024, -1))))))))
//
//@ func (SZX) Size() (r int64)
//@   ensures [table] r == szxSize(s)
//
//@ func EncodeBlockOption(szx SZX, blockNumber int64, moreBlocksFollowing bool) (v uint32, err error)
//@   ensures [accepts-20bit] (szx <= 7 && 0 <= blockNumber && blockNumber < 1048576) ==> err == nil
//@   ensures [refuses] !(szx <= 7 && 0 <= blockNumber && blockNumber < 1048576) ==> err != nil
//@   ensures [layout] err == nil ==> v == 16*blockNumber + ite(moreBlocksFollowing, 8, 0) + szx
//@   ensures [err-kind] err != nil ==> (err == ErrInvalidSZX || err == ErrBlockNumberExceedLimit)
//
//@ func DecodeBlockOption(blockVal uint32) (szx SZX, blockNumber int64, moreBlocksFollowing bool, err error)
//@   ensures [defined-on-24bit] blockVal <= 16777215 ==> err == nil
//@   ensures [refuses-above] blockVal > 16777215 ==> err != nil
//@   ensures [fields] err == nil ==> szx == blockVal % 8 && blockNumber == blockVal / 16 && (moreBlocksFollowing <==> (blockVal / 8) % 2 == 1)
//
// BERT buffer sizing (RFC 8323 section 6): whole multiples of 1024 bounded by the maximum message size.
//
//@ spec bufSize(szx int, maxMessageSize int) int = ite(szx < 7, szxSize(szx), (maxMessageSize / 1024) * 1024)
//
//@ func bufferSize(szx SZX, maxMessageSize uint32) (r int64)
//@   ensures [spec] szx <= 7 ==> r == bufSize(szx, maxMessageSize)
//@   ensures [non-bert] szx < 7 ==> r == szxSize(szx)
//@   ensures [bert] szx == 7 ==> r % 1024 == 0 && 0 <= r && r <= maxMessageSize && maxMessageSize - r < 1024
//
//@ func getSzx(szx SZX, maxSzx SZX) (r SZX)
//@   ensures [min] r == min(szx, maxSzx)
//
// Mutual inverse, stated over the two contracts (callers only ever see the contracts):
//
//@ lemma decEnc(szx SZX, n int64, m bool, v uint32, e1 error, szx2 SZX, n2 int64, m2 bool, e2 error)
//@   requires contract.EncodeBlockOption(szx, n, m, v, e1) && e1 == nil
//@   requires contract.DecodeBlockOption(v, szx2, n2, m2, e2)
//@   ensures [dec-of-enc] e2 == nil && szx2 == szx && n2 == n && (m2 <==> m)
//
//@ lemma encDec(v uint32, szx SZX, n int64, m bool, e1 error, v2 uint32, e2 error)
//@   requires contract.DecodeBlockOption(v, szx, n, m, e1) && e1 == nil
//@   requires contract.EncodeBlockOption(szx, n, m, v2, e2)
//@   ensures [enc-of-dec] e2 == nil && v2 == v
//
// Handle (entry point for every received message; it may run arbitrary handlers, so no frame is claimed):
// it never gives a message back to the pool itself - in particular not the message remembered for a
// transfer that is being sent, which for an upload started by Do is the CALLER's request (seed C12c-1
// released it on the error path) - and a continuation that fails forgets the transfer.
//
//@ func (*BlockWise) handleReceivedMessage(w *responsewriter.ResponseWriter, r *pool.Message, maxSZX SZX, maxMessageSize uint32, next func(*responsewriter.ResponseWriter, *pool.Message)) (err error)
//@   trusted
//@   modifies anything
//
//@ func (*BlockWise) continueSendingMessage(w *responsewriter.ResponseWriter, r *pool.Message, maxSZX SZX, maxMessageSize uint32, messageCode codes.Code) (more bool, err error)
//@   trusted
//@   modifies anything
//
//@ func (*BlockWise) sendEntityIncomplete(w *responsewriter.ResponseWriter, token message.Token)
//@   trusted
//@   modifies anything
//
//@ func (*BlockWise) getSendingMessageCode(token uint64) (c codes.Code, ok bool)
//@   trusted
//
//@ func (*BlockWise) Handle(w *responsewriter.ResponseWriter, r *pool.Message, maxSZX SZX, maxMessageSize uint32, next func(*responsewriter.ResponseWriter, *pool.Message))
//@   requires b != nil
//@   assumes r != nil && maxSZX <= 7 && b.sendingMessagesCache != nil && b.sendingMessagesCache.Map != nil
//@   modifies anything
//@   opaque-calls pure
//@   ensures [never-releases-a-message] notCalled(ReleaseMessage)
//@   ensures [one-way-or-the-other] callCount(handleReceivedMessage) + callCount(continueSendingMessage) == 1
//@   ensures [failed-continuation-forgets-the-transfer] called(continueSendingMessage) && callRes(continueSendingMessage, 0, 1) != nil ==> callCount(Delete) == 1 && notCalled(LoadAndDelete)
//@   ensures [finished-response-forgotten] called(continueSendingMessage) && callRes(continueSendingMessage, 0, 1) == nil && !callRes(continueSendingMessage, 0, 0) && callRes(getSendingMessageCode, 0, 0) > 4 ==> callCount(Delete) == 1
//@   ensures [running-transfer-kept] called(continueSendingMessage) && callRes(continueSendingMessage, 0, 1) == nil && (callRes(continueSendingMessage, 0, 0) || callRes(getSendingMessageCode, 0, 0) <= 4) ==> notCalled(Delete)
//@   ensures [failed-reception-answered] called(handleReceivedMessage) && callRes(handleReceivedMessage, 0, 0) != nil ==> callCount(sendEntityIncomplete) == 1 && notCalled(Delete)
//@   param next:
//
//@ immutable BlockWise.sendingMessagesCache
//@ immutable BlockWise.receivingMessagesCache
//@ immutable BlockWise.cc
//@ immutable BlockWise.expiration
//
// ---- C04: the sender's block arithmetic ----------------------------------------------------------------
//
// createSendingMessage cuts one block out of the body of the message being sent. For the block option
// value it is given (szx0, num0 - the block the peer asked for / acknowledged) and the two limits:
// szx = min(szx0, maxSZX); the block starts at body offset off = num0 * size(szx) (+ one buffer when the
// peer has acknowledged block num0 of a Block1 upload: the acknowledged block is skipped); at most bufferSize(szx, maxMessageSize) bytes are read
// from exactly that offset; `more` is set iff the body continues after what was read; the block option
// written carries (szx, off / size(szx), more) and the size option the total body size; on every error
// the message acquired for the block is given back to the pool and nothing is returned.
//
// Assumed contracts (unverified surroundings):
//
//@ func (Client) AcquireMessage(ctx context.Context) (m *pool.Message)
//@   trusted
//@   ensures m != nil && fresh(m) && len(m.msg.Options) == 0 && (cap(m.msg.Options) == 0 || fresh(m.msg.Options)) && (cap(m.valueBuffer) == 0 || fresh(m.valueBuffer))
//
//@ func (Client) ReleaseMessage(m *pool.Message)
//@   trusted
//
//@ func payloadSizeError(err error) (e error)
//@   trusted
//@   ensures e != nil
//
//@ func (*BlockWise) createSendingMessage(sendingMessage *pool.Message, maxSZX SZX, maxMessageSize uint32, block uint32, peerHasBlock bool) (sendMessage *pool.Message, more bool, err error)
//@   requires b != nil && sendingMessage != nil && maxSZX <= 7 && len(sendingMessage.msg.Options) < 100000
//@   modifies anything
//@   opaque-calls pure
//@   ensures [bad-option-nothing-acquired] block > 16777215 ==> err != nil && notCalled(AcquireMessage)
//@   ensures [offset] called(Seek) ==> callArg(Seek, 0, 1) == (block / 16) * szxSize(min(block % 8, maxSZX)) + ite((old(sendingMessage.msg.Code) == 2 || old(sendingMessage.msg.Code) == 3) && peerHasBlock, callRes(bufferSize, 0, 0), 0) && callArg(Seek, 0, 2) == 0
//@   witness start = off
//@   ensures [start-is-the-offset] called(Seek) ==> start == callArg(Seek, 0, 1)
//@   ensures [start] err == nil ==> sendMessage != nil && start == (block / 16) * szxSize(min(block % 8, maxSZX)) + ite((old(sendingMessage.msg.Code) == 2 || old(sendingMessage.msg.Code) == 3) && peerHasBlock, bufSize(min(block % 8, maxSZX), maxMessageSize), 0)
//@   ensures [window] called(bufferSize) ==> callArg(bufferSize, 0, 0) == min(block % 8, maxSZX) && callArg(bufferSize, 0, 1) == maxMessageSize
//@   ensures [reads-one-window-at-offset] called(ReadFull) ==> len(callArg(ReadFull, 0, 1)) == callRes(bufferSize, 0, 0) && callRes(Seek, 0, 1) == nil && callRes(Seek, 0, 0) == callArg(Seek, 0, 1)
//@   ensures [more-iff-body-continues] err == nil ==> (more <==> callRes(Seek, 0, 0) + callRes(ReadFull, 0, 0) != callRes(BodySize, 0, 0))
//@   ensures [short-read-only-at-end] err == nil && callRes(ReadFull, 0, 0) < callRes(bufferSize, 0, 0) ==> callRes(Seek, 0, 0) + callRes(ReadFull, 0, 0) == callRes(BodySize, 0, 0)
//@   ensures [block-option] err == nil ==> callCount(EncodeBlockOption) == 1 && callArg(EncodeBlockOption, 0, 0) == min(block % 8, maxSZX) && callArg(EncodeBlockOption, 0, 1) == callRes(Seek, 0, 0) / szxSize(min(block % 8, maxSZX)) && (callArg(EncodeBlockOption, 0, 2) <==> more) && callCount(SetOptionUint32) == 2 && callArg(SetOptionUint32, 1, 1) == ite(old(sendingMessage.msg.Code) == 2 || old(sendingMessage.msg.Code) == 3, 27, 23) && callArg(SetOptionUint32, 1, 2) == callRes(EncodeBlockOption, 0, 0)
//@   ensures [size-option] err == nil ==> callArg(SetOptionUint32, 0, 1) == ite(old(sendingMessage.msg.Code) == 2 || old(sendingMessage.msg.Code) == 3, 60, 28) && callArg(SetOptionUint32, 0, 2) == callRes(BodySize, 0, 0)
//@   ensures [error-gives-back] err != nil ==> sendMessage == nil && (called(AcquireMessage) ==> callCount(ReleaseMessage) == 1 && callArg(ReleaseMessage, 0, 1) == callRes(AcquireMessage, 0, 0))
//@   ensures [success-keeps] err == nil ==> sendMessage == callRes(AcquireMessage, 0, 0) && notCalled(ReleaseMessage)
//
// ---- C04: the receiver only ever appends the next block ------------------------------------------------
//
// processReceivedMessage (one incoming block of a body): a message without token, a GET/DELETE or a
// message without the block option is passed on untouched. Otherwise the block is written into the
// body being assembled ONLY if it starts exactly at the number of bytes already held (offset = NUM x
// block size = bytes held): duplicated, stale, early or foreign blocks change nothing and are never
// delivered. When the last block (M = 0) has been appended the assembled message is delivered exactly
// once, after its cache entry has been removed; while more blocks are outstanding nothing is delivered
// and the answer asks for the following block with the negotiated size min(SZX, maxSZX). The last block
// of an UPLOAD for which nothing is being assembled is delivered only if it is block 0 (the whole body in
// one block); otherwise it is refused (defect D16 - repaired). Any failure
// after the assembly entry was obtained forgets the transfer (the entry is deleted) and the entry's
// lock is given back on every path.
//
// Assumed contracts (unverified surroundings):
//
//@ func (*BlockWise) getSentRequest(token message.Token) (m *pool.Message)
//@   trusted
//@   ensures m != nil ==> len(m.msg.Options) < 1000000
//
// getValidUntil: how long the state of a transfer may be kept - the deadline of the request it belongs to
// when that has one, otherwise the configured expiration from now; never "for ever" (the zero time).
//
//@ func (*BlockWise) getValidUntil(sentRequest *pool.Message) (t time.Time)
//@   requires b != nil && b.expiration > 0 && b.expiration < 4611686018427387904
//@   opaque-calls pure
//@   ensures [deadline-or-expiration] (called(Deadline) && callRes(Deadline, 0, 1) ==> t == callRes(Deadline, 0, 0)) && (!(called(Deadline) && callRes(Deadline, 0, 1)) ==> t == callRes(Now, 0, 0) + b.expiration)
//@   ensures [asks-the-request] sentRequest != nil ==> called(Deadline)
//
//@ func isObserveResponse(msg *pool.Message) (b bool)
//@   trusted
//
//@ func (*BlockWise) handleObserveResponse(sentRequest *pool.Message) (token message.Token, validUntil time.Time, err error)
//@   trusted
//
//@ func (*BlockWise) getCachedReceivedMessage(mg *messageGuard, r *pool.Message, tokenStr uint64, validUntil time.Time) (m *pool.Message, closeFn func(), err error)
//@   trusted
//@   ensures err == nil ==> m != nil && closeFn != nil && msgInv(m) && len(m.msg.Options) < 100000
//@   ensures err == nil ==> (forall j int :: {r.msg.Options[j].ID} 0 <= j && j < len(r.msg.Options) ==> disjoint(r.msg.Options[j].Value, m.valueBuffer[0 : cap(m.valueBuffer)]))
//
// getPayloadFromCachedReceivedMessage: the number of bytes held that it reports is read AFTER the body
// was emptied because the representation changed (new ETag), never before.
//
//@ func (*BlockWise) getPayloadFromCachedReceivedMessage(r *pool.Message, cachedReceivedMessage *pool.Message) (f *memfile.File, size int64, err error)
//@   requires b != nil && r != nil && cachedReceivedMessage != nil && msgInv(cachedReceivedMessage) && len(cachedReceivedMessage.msg.Options) < 100000
//@   requires [received-values-elsewhere] forall j int :: {r.msg.Options[j].ID} 0 <= j && j < len(r.msg.Options) ==> disjoint(r.msg.Options[j].Value, cachedReceivedMessage.valueBuffer[0 : cap(cachedReceivedMessage.valueBuffer)])
//@   modifies cachedReceivedMessage.msg.Options, cachedReceivedMessage.msg.Options[0 : cap(cachedReceivedMessage.msg.Options)], cachedReceivedMessage.valueBuffer, cachedReceivedMessage.valueBuffer[0 : cap(cachedReceivedMessage.valueBuffer)], cachedReceivedMessage.isModified
//@   opaque-calls pure
//@   ensures [keeps-message-invariant] msgInv(cachedReceivedMessage) && len(cachedReceivedMessage.msg.Options) < 100002
//@   ensures [size-is-current] err == nil ==> callCount(BodySize) == 1 && size == callRes(BodySize, 0, 0) && callArg(BodySize, 0, 0) == cachedReceivedMessage && (called(Truncate) ==> callSeq(Truncate, 0) < callSeq(BodySize, 0))
//@   ensures [truncates-to-empty] called(Truncate) ==> callCount(Truncate) == 1 && callArg(Truncate, 0, 1) == 0 && (err == nil ==> callArg(Truncate, 0, 0) == f)
//
//@ func copyToPayloadFromOffset(r *pool.Message, payloadFile *memfile.File, offset int64) (size int64, err error)
//@   trusted
//@   ensures err == nil ==> size >= offset
//
// asksForBlock2: true only if the request carries a Block2 option that decodes to exactly that block number
// (D20: the tail of a download whose earlier blocks are not held is delivered only to a request that asked
// for that very block).
//@ func asksForBlock2(req *pool.Message, num int64) (b bool)
//@   requires req != nil
//@   ensures [only-for-that-block] b ==> callCount(GetOptionUint32) == 1 && callArg(GetOptionUint32, 0, 0) == req && callArg(GetOptionUint32, 0, 1) == 23 && callRes(GetOptionUint32, 0, 1) == nil && callCount(DecodeBlockOption) == 1 && callArg(DecodeBlockOption, 0, 0) == callRes(GetOptionUint32, 0, 0) && callRes(DecodeBlockOption, 0, 3) == nil && callRes(DecodeBlockOption, 0, 1) == num
//@   ensures [that-block-is-granted] callCount(DecodeBlockOption) == 1 && callRes(DecodeBlockOption, 0, 3) == nil && callRes(DecodeBlockOption, 0, 1) == num ==> b
//
//@ func (*BlockWise) processReceivedMessage(w *responsewriter.ResponseWriter, r *pool.Message, maxSzx SZX, next func(w *responsewriter.ResponseWriter, r *pool.Message), blockType message.OptionID, sizeType message.OptionID) (err error)
//@   requires b != nil && w != nil && r != nil && maxSzx <= 7 && b.expiration > 0 && b.expiration < 4611686018427387904 && b.receivingMessagesCache != nil && b.receivingMessagesCache.Map != nil && b.sendingMessagesCache != nil && b.sendingMessagesCache.Map != nil
//@   modifies anything
//@   opaque-calls pure
//@   lockinv [no-nil-elements] forall k int :: {present(b.receivingMessagesCache.Map.data, k)} present(b.receivingMessagesCache.Map.data, k) ==> b.receivingMessagesCache.Map.data[k] != nil
//@   ensures [passes-through-plain] notCalled(DecodeBlockOption) && err == nil ==> callCount(next) == 1 && callArg(next, 0, 0) == w && callArg(next, 0, 1) == r && notCalled(copyToPayloadFromOffset) && notCalled(SetMessage)
//@   ensures [at-most-one-delivery] callCount(next) <= 1 && callCount(copyToPayloadFromOffset) <= 1
//@   ensures [appends-only-at-end] called(copyToPayloadFromOffset) ==> callArg(copyToPayloadFromOffset, 0, 2) == callRes(getPayloadFromCachedReceivedMessage, 0, 1) && callArg(copyToPayloadFromOffset, 0, 2) == callRes(DecodeBlockOption, 0, 1) * callRes(Size, 0, 0) && callArg(copyToPayloadFromOffset, 0, 0) == r && callArg(copyToPayloadFromOffset, 0, 1) == callRes(getPayloadFromCachedReceivedMessage, 0, 0)
//@   ensures [offset-in-the-senders-block-size] called(copyToPayloadFromOffset) && called(Data) && callRes(Data, 0, 0) != nil ==> callArg(Size, 0, 0) == callRes(DecodeBlockOption, 0, 0)
//@   ensures [first-block-negotiates-size] called(copyToPayloadFromOffset) && !(called(Data) && callRes(Data, 0, 0) != nil) ==> callArg(Size, 0, 0) == min(callRes(DecodeBlockOption, 0, 0), maxSzx)
//@   ensures [other-blocks-change-nothing] called(getPayloadFromCachedReceivedMessage) && callRes(getPayloadFromCachedReceivedMessage, 0, 2) == nil && callRes(DecodeBlockOption, 0, 1) * callRes(Size, 0, 0) != callRes(getPayloadFromCachedReceivedMessage, 0, 1) ==> notCalled(copyToPayloadFromOffset) && notCalled(next)
//@   ensures [complete-delivered-once] called(copyToPayloadFromOffset) && callRes(copyToPayloadFromOffset, 0, 1) == nil && !callRes(DecodeBlockOption, 0, 2) && err == nil ==> callCount(next) == 1 && callArg(next, 0, 1) == callRes(getCachedReceivedMessage, 0, 0) && called(Delete) && callSeq(Delete, 0) < callSeq(next, 0) && notCalled(SetMessage)
//@   ensures [lone-final-block-of-upload-refused] called(DecodeBlockOption) && callRes(DecodeBlockOption, 0, 3) == nil && blockType == 27 && !callRes(DecodeBlockOption, 0, 2) && callRes(DecodeBlockOption, 0, 1) != 0 && notCalled(getCachedReceivedMessage) ==> err != nil && notCalled(next)
//@   ensures [lone-final-block-of-download-refused] called(DecodeBlockOption) && callRes(DecodeBlockOption, 0, 3) == nil && blockType == 23 && !callRes(DecodeBlockOption, 0, 2) && callRes(DecodeBlockOption, 0, 1) != 0 && notCalled(getCachedReceivedMessage) && !(called(asksForBlock2) && callRes(asksForBlock2, 0, 0)) ==> err != nil && notCalled(next)
//@   ensures [asks-about-this-block] called(asksForBlock2) ==> callArg(asksForBlock2, 0, 0) == callRes(getSentRequest, 0, 0) && callArg(asksForBlock2, 0, 1) == callRes(DecodeBlockOption, 0, 1)
//@   ensures [follow-up-request-of-a-notification-forgotten] called(next) && called(copyToPayloadFromOffset) && callCount(Token) >= 2 ==> callCount(Equal) == 1 && callArg(Equal, 0, 0) == callRes(Token, callCount(Token) - 1, 0) && (callRes(Equal, 0, 0) ==> callCount(Delete) == 1) && (!callRes(Equal, 0, 0) ==> callCount(Delete) == 2 && callArg(Delete, 1, 0) == b.sendingMessagesCache.Map && callArg(Delete, 1, 1) == callArg(Delete, 0, 1))
//@   ensures [assembled-message-asked-for-its-token] called(next) && called(copyToPayloadFromOffset) ==> callCount(Token) >= 2
//@   ensures [incomplete-not-delivered] called(getCachedReceivedMessage) && callRes(DecodeBlockOption, 0, 2) ==> notCalled(next)
//@   ensures [asks-for-next-block] called(getCachedReceivedMessage) && callRes(DecodeBlockOption, 0, 2) && err == nil ==> callCount(SetMessage) == 1 && callCount(EncodeBlockOption) == 1 && callArg(EncodeBlockOption, 0, 0) == min(callRes(DecodeBlockOption, 0, 0), maxSzx) && callArg(EncodeBlockOption, 0, 2)
//@   ensures [failure-forgets-transfer] err != nil && called(getCachedReceivedMessage) && callRes(getCachedReceivedMessage, 0, 2) == nil ==> called(Delete)
//@   ensures [lock-given-back] called(getCachedReceivedMessage) && callRes(getCachedReceivedMessage, 0, 2) == nil ==> callCount(opaque) == 1 && callFn(opaque, 0) == callRes(getCachedReceivedMessage, 0, 1)
//@   param next:
//
// startSendingMessage (first block of a transfer that this side starts: a response, or a one-way
// write): a body smaller than one block goes out whole; otherwise the first message carries the block
// the option value names - for a transfer that STARTS, block 0 from offset 0 (defect D15: a POST/PUT
// write started at the second block - repaired) - and the full message is remembered for the blocks
// to come.
//
//@ func (*BlockWise) startSendingMessage(w *responsewriter.ResponseWriter, maxSZX SZX, maxMessageSize uint32, block uint32) (err error)
//@   requires b != nil && w != nil && w.response != nil && maxSZX <= 7 && len(w.response.msg.Options) < 100000 && b.sendingMessagesCache != nil && b.sendingMessagesCache.Map != nil
//@   modifies anything
//@   opaque-calls pure
//@   lockinv [no-nil-elements] forall k int :: {present(b.sendingMessagesCache.Map.data, k)} present(b.sendingMessagesCache.Map.data, k) ==> b.sendingMessagesCache.Map.data[k] != nil
//@   ensures [small-body-whole] called(BodySize) && callRes(BodySize, 0, 1) == nil && callRes(BodySize, 0, 0) < szxSize(maxSZX) ==> err == nil && notCalled(createSendingMessage) && notCalled(Swap)
//@   ensures [cuts-at-most-once] callCount(createSendingMessage) <= 1
//@   ensures [starts-where-the-option-says] called(createSendingMessage) && callRes(createSendingMessage, 0, 2) == nil ==> !callArg(createSendingMessage, 0, 5) && createSendingMessage.start == (block / 16) * szxSize(min(block % 8, maxSZX))
//@   ensures [first-block-replaces-message] called(createSendingMessage) && callRes(createSendingMessage, 0, 2) == nil ==> callCount(Swap) == 1 && callArg(Swap, 0, 1) == callRes(createSendingMessage, 0, 0)

// ---- C03 / C04: Do (a request that may need a block-wise upload) -----------------------------------------
//
// Do claims the request's token in the table of messages being sent in ONE atomic step (LoadOrStore): a
// token that belongs to a request still being sent is refused and nothing of that request is touched -
// its entry is neither replaced nor removed, and nothing is sent (seed C03b-1 replaced the claim by a
// plain Store). The entry of an accepted request is removed again when the call returns, on every path,
// after the exchange. The request is handed to `do` at most once; a body that needs more than one block
// goes out as a clone that carries block 0 (Block1 = NUM 0, the given size exponent, and M = 1 exactly when
// bytes remain after this message - with BERT the first message carries several 1024-byte blocks and may
// hold the whole body: defect D19, repaired), never the original.
//
//@ func (*BlockWise) Do(r *pool.Message, maxSzx SZX, maxMessageSize uint32, do func(req *pool.Message) (*pool.Message, error)) (resp *pool.Message, err error)
//@   requires b != nil && r != nil && b.sendingMessagesCache != nil && b.sendingMessagesCache.Map != nil && len(r.msg.Options) < 100000 && len(r.msg.Token) <= 8
//@   modifies anything
//@   opaque-calls pure
//@   lockinv [no-nil-elements] forall k int :: {present(b.sendingMessagesCache.Map.data, k)} present(b.sendingMessagesCache.Map.data, k) ==> b.sendingMessagesCache.Map.data[k] != nil
//@   ensures [claims-token-at-most-once] callCount(LoadOrStore) <= 1 && notCalled(Store)
//@   ensures [token-in-use-refused] called(LoadOrStore) && callRes(LoadOrStore, 0, 1) ==> err != nil && resp == nil && notCalled(Delete) && notCalled(do)
//@   ensures [nothing-before-the-claim] notCalled(LoadOrStore) ==> err != nil && resp == nil && notCalled(Delete) && notCalled(do)
//@   ensures [entry-removed-after-the-exchange] called(LoadOrStore) && !callRes(LoadOrStore, 0, 1) ==> callCount(Delete) == 1 && callArg(Delete, 0, 1) == callArg(LoadOrStore, 0, 1) && (called(do) ==> callSeq(do, 0) < callSeq(Delete, 0))
//@   ensures [sent-at-most-once] callCount(do) <= 1
//@   ensures [large-body-goes-as-first-block] called(EncodeBlockOption) ==> callArg(EncodeBlockOption, 0, 0) == maxSzx && callArg(EncodeBlockOption, 0, 1) == 0 && (called(do) ==> callArg(do, 0, 0) == callRes(AcquireMessage, 0, 0))
//@   ensures [more-iff-bytes-remain] called(EncodeBlockOption) && called(bufferSize) ==> (callArg(EncodeBlockOption, 0, 2) <==> callRes(BodySize, 0, 0) > callRes(bufferSize, 0, 0))
//@   ensures [small-body-goes-whole] called(do) && notCalled(EncodeBlockOption) ==> callArg(do, 0, 0) == r
//@   ensures [first-block-options] called(do) && called(EncodeBlockOption) ==> callCount(SetOptionUint32) == 2 && callArg(SetOptionUint32, 0, 0) == callArg(do, 0, 0) && callArg(SetOptionUint32, 0, 1) == 60 && callArg(SetOptionUint32, 0, 2) == callRes(BodySize, 0, 0) && callArg(SetOptionUint32, 1, 0) == callArg(do, 0, 0) && callArg(SetOptionUint32, 1, 1) == 27 && callArg(SetOptionUint32, 1, 2) == callRes(EncodeBlockOption, 0, 0)
//@   param do:
