//go:build verif

// Contracts for package limitparallelrequests (checked by /verif/govc; comment-only, compiled only with -tags verif).
package limitparallelrequests

// ---- C16: per-endpoint admission ---------------------------------------------------------------------
//
// State of one endpoint (one entry of endpointQueues, only touched inside the map's critical section):
// processedCounter = slots handed out, orderedRequest = channels of the waiters in arrival order.
// Invariant: 1 <= counter <= limit; waiters are distinct, non-nil and not yet admitted (not closed);
// somebody waits only while all slots are taken. A request is admitted exactly when its channel is closed.
//
//@ spec qInv(q []chan struct{}) bool = (forall i int :: {q[i]} 0 <= i && i < len(q) ==> q[i] != nil && !closed(q[i])) && (forall i int, j int :: {q[i], q[j]} 0 <= i && i < j && j < len(q) ==> q[i] != q[j])
//@ spec epInv(v *endpointQueue, lim int64) bool = v != nil && 1 <= v.processedCounter && v.processedCounter <= lim && qInv(v.orderedRequest) && (len(v.orderedRequest) > 0 ==> v.processedCounter == lim)
//
// Arrival at an endpoint that already has an entry: admitted at once iff a slot is free (then nobody
// waits, by the invariant), otherwise queued behind all earlier waiters.
//
//@ func (*LimitParallelRequests) acquireEndpoint$1(value *endpointQueue) (r *endpointQueue)
//@   requires c != nil && c.endpointLimit >= 1 && epInv(value, c.endpointLimit) && len(value.orderedRequest) < 1000000
//@   requires reqChan != nil && !closed(reqChan) && (forall i int :: {value.orderedRequest[i]} 0 <= i && i < len(value.orderedRequest) ==> value.orderedRequest[i] != reqChan)
//@   modifies value.processedCounter, value.orderedRequest, value.orderedRequest[len(value.orderedRequest) : cap(value.orderedRequest)]
//@   ensures [same-entry] r == value
//@   ensures [inv] epInv(value, c.endpointLimit)
//@   ensures [admit-iff-free] closed(reqChan) <==> old(value.processedCounter) < c.endpointLimit
//@   ensures [admitted] closed(reqChan) ==> value.processedCounter == old(value.processedCounter) + 1 && len(value.orderedRequest) == old(len(value.orderedRequest))
//@   ensures [queued-last] !closed(reqChan) ==> value.processedCounter == old(value.processedCounter) && len(value.orderedRequest) == old(len(value.orderedRequest)) + 1 && value.orderedRequest[len(value.orderedRequest) - 1] == reqChan
//@   ensures [order-kept] forall i int :: {value.orderedRequest[i]} 0 <= i && i < old(len(value.orderedRequest)) ==> value.orderedRequest[i] == old(value.orderedRequest[i])
//@   ensures [closes-only-own] callCount(close) <= 1 && (called(close) ==> callArg(close, 0, 0) == reqChan)
//
// First arrival at an endpoint: a new entry with one slot taken, admitted at once.
//
//@ func (*LimitParallelRequests) acquireEndpoint$2() (r *endpointQueue)
//@   ghost lim int64
//@   requires lim >= 1 && reqChan != nil && !closed(reqChan)
//@   ensures [fresh-entry] r != nil && fresh(r) && r.processedCounter == 1 && len(r.orderedRequest) == 0
//@   ensures [admitted] closed(reqChan)
//@   ensures [inv] epInv(r, lim)
//
// Giving a slot back: the longest-waiting request gets it (the counter stays), or the counter drops
// and the entry is removed with the last slot.
//
//@ func (*LimitParallelRequests) releaseEndpoint$1(oldValue *endpointQueue, oldLoaded bool) (newValue *endpointQueue, doDelete bool)
//@   ghost lim int64
//@   requires lim >= 1 && (oldLoaded ==> epInv(oldValue, lim))
//@   modifies oldValue.processedCounter, oldValue.orderedRequest
//@   ensures [absent] !oldLoaded ==> doDelete && newValue == nil
//@   ensures [hand-over] oldLoaded && old(len(oldValue.orderedRequest)) > 0 ==> !doDelete && newValue == oldValue && closed(old(oldValue.orderedRequest[0])) && oldValue.processedCounter == old(oldValue.processedCounter) && len(oldValue.orderedRequest) == old(len(oldValue.orderedRequest)) - 1
//@   ensures [fifo] oldLoaded && old(len(oldValue.orderedRequest)) > 0 ==> (forall i int :: {oldValue.orderedRequest[i]} 0 <= i && i < len(oldValue.orderedRequest) ==> oldValue.orderedRequest[i] == old(oldValue.orderedRequest[i + 1]))
//@   ensures [free] oldLoaded && old(len(oldValue.orderedRequest)) == 0 ==> oldValue.processedCounter == old(oldValue.processedCounter) - 1 && (doDelete <==> oldValue.processedCounter == 0) && (!doDelete ==> newValue == oldValue)
//@   ensures [inv] oldLoaded && !doDelete ==> epInv(oldValue, lim)
//@   ensures [closes-only-head] callCount(close) <= 1 && (called(close) ==> old(len(oldValue.orderedRequest)) > 0 && callArg(close, 0, 0) == old(oldValue.orderedRequest[0]))
//
// acquireEndpoint returns nil only once the request has been admitted, and it gives a slot back on
// cancellation only if the request had been given one.
//
//@ func (*LimitParallelRequests) releaseEndpoint(endpointLimitKey uint64)
//@   requires c != nil && c.endpointQueues != nil
//@   opaque-calls pure
//
//@ func (*LimitParallelRequests) acquireEndpoint(ctx context.Context, endpointLimitKey uint64) (err error)
//@   requires c != nil && c.endpointQueues != nil
//@   signal-channels
//@   opaque-calls pure
//@   ensures [one-channel] callCount(makechan) == 1
//@   ensures [admitted-on-success] err == nil ==> closed(callRes(makechan, 0, 0))
//@   ensures [registers-once] callCount(LoadOrStoreWithFunc) == 1 && callArg(LoadOrStoreWithFunc, 0, 1) == endpointLimitKey
//@   ensures [gives-back-only-own-slot] notCalled(releaseEndpoint)
//@   ensures [withdraws-on-cancel] err != nil ==> callCount(cancelEndpoint) == 1 && callArg(cancelEndpoint, 0, 1) == endpointLimitKey && callArg(cancelEndpoint, 0, 2) == callRes(makechan, 0, 0)
//@   ensures [keeps-slot-on-success] err == nil ==> notCalled(cancelEndpoint)
//
// cancelEndpoint: the request leaves the queue inside one critical section of the map; only if it
// was not waiting any more (it had been admitted) its slot is given back.
//
//@ func (*LimitParallelRequests) cancelEndpoint(endpointLimitKey uint64, reqChan chan struct{})
//@   requires c != nil && c.endpointQueues != nil
//@   opaque-calls pure
//@   ensures [one-step] callCount(ReplaceWithFunc) == 1 && callArg(ReplaceWithFunc, 0, 1) == endpointLimitKey
//@   ensures [release-at-most-once] callCount(releaseEndpoint) <= 1 && (called(releaseEndpoint) ==> callArg(releaseEndpoint, 0, 1) == endpointLimitKey && callSeq(ReplaceWithFunc, 0) < callSeq(releaseEndpoint, 0))
//
// Do / DoObserve: endpoint slot first, then the total limit, then the request; every slot taken is
// given back exactly once on every path, and nothing is given back that was not taken.
//
//@ func (*LimitParallelRequests) Do(req *pool.Message) (resp *pool.Message, err error)
//@   requires c != nil && c.endpointQueues != nil && c.limit != nil && req != nil
//@   modifies anything
//@   opaque-calls pure
//@   ensures [endpoint-first] callCount(acquireEndpoint) == 1
//@   ensures [refused-endpoint] callRes(acquireEndpoint, 0, 0) != nil ==> err != nil && notCalled(Acquire) && notCalled(do) && notCalled(releaseEndpoint) && notCalled(Release)
//@   ensures [endpoint-balanced] callRes(acquireEndpoint, 0, 0) == nil ==> callCount(releaseEndpoint) == 1 && callArg(releaseEndpoint, 0, 1) == callArg(acquireEndpoint, 0, 2)
//@   ensures [total-after-endpoint] callRes(acquireEndpoint, 0, 0) == nil ==> callCount(Acquire) == 1 && callArg(Acquire, 0, 2) == 1 && callSeq(acquireEndpoint, 0) < callSeq(Acquire, 0)
//@   ensures [refused-total] called(Acquire) && callRes(Acquire, 0, 0) != nil ==> err != nil && notCalled(do) && notCalled(Release)
//@   ensures [total-balanced] called(Acquire) && callRes(Acquire, 0, 0) == nil ==> callCount(Release) == 1 && callArg(Release, 0, 1) == 1 && callCount(do) == 1 && callSeq(Acquire, 0) < callSeq(do, 0) && callSeq(do, 0) < callSeq(Release, 0) && callSeq(Release, 0) < callSeq(releaseEndpoint, 0)
//
//@ func (*LimitParallelRequests) DoObserve(req *pool.Message, observeFunc func(req *pool.Message)) (o Observation, err error)
//@   requires c != nil && c.endpointQueues != nil && c.limit != nil && req != nil
//@   modifies anything
//@   opaque-calls pure
//@   ensures [endpoint-first] callCount(acquireEndpoint) == 1
//@   ensures [refused-endpoint] callRes(acquireEndpoint, 0, 0) != nil ==> err != nil && notCalled(Acquire) && notCalled(doObserve) && notCalled(releaseEndpoint) && notCalled(Release)
//@   ensures [endpoint-balanced] callRes(acquireEndpoint, 0, 0) == nil ==> callCount(releaseEndpoint) == 1 && callArg(releaseEndpoint, 0, 1) == callArg(acquireEndpoint, 0, 2)
//@   ensures [total-after-endpoint] callRes(acquireEndpoint, 0, 0) == nil ==> callCount(Acquire) == 1 && callArg(Acquire, 0, 2) == 1 && callSeq(acquireEndpoint, 0) < callSeq(Acquire, 0)
//@   ensures [refused-total] called(Acquire) && callRes(Acquire, 0, 0) != nil ==> err != nil && notCalled(doObserve) && notCalled(Release)
//@   ensures [total-balanced] called(Acquire) && callRes(Acquire, 0, 0) == nil ==> callCount(Release) == 1 && callArg(Release, 0, 1) == 1 && callCount(doObserve) == 1 && callSeq(Acquire, 0) < callSeq(doObserve, 0) && callSeq(doObserve, 0) < callSeq(Release, 0) && callSeq(Release, 0) < callSeq(releaseEndpoint, 0)
//
// New: non-positive limits mean "unlimited"; the semaphore gets the total limit, the endpoints the
// per-endpoint limit, which is at least 1 (so the first arrival at an endpoint can always be admitted).
//
//@ func hash(opts message.Options) (h uint64)
//@   trusted
//
//@ func New(limit int64, endpointLimit int64, do DoFunc, doObserve DoObserveFunc) (l *LimitParallelRequests)
//@   ensures [fresh] l != nil && fresh(l)
//@   ensures [endpoint-limit] l.endpointLimit == ite(endpointLimit <= 0, 9223372036854775807, endpointLimit) && l.endpointLimit >= 1
//@   ensures [total-limit] callCount(NewWeighted) == 1 && callArg(NewWeighted, 0, 0) == ite(limit <= 0, 9223372036854775807, limit)
//@   ensures [wired] l.limit == callRes(NewWeighted, 0, 0) && l.endpointQueues != nil
//
// Withdrawing a cancelled request: if it still waits it leaves the queue - no slot moves, nobody is
// admitted, the order of the others is kept; otherwise nothing changes here (the caller then releases
// the slot the request owns).
//
//@ func (*LimitParallelRequests) cancelEndpoint$1(oldValue *endpointQueue, oldLoaded bool) (newValue *endpointQueue, doDelete bool)
//@   ghost lim int64
//@   requires lim >= 1 && (oldLoaded ==> epInv(oldValue, lim) && len(oldValue.orderedRequest) < 1000000) && !waiting
//@   modifies oldValue.orderedRequest, oldValue.orderedRequest[0 : len(oldValue.orderedRequest)]
//@   ensures [absent] !oldLoaded ==> doDelete && newValue == nil && !waiting
//@   ensures [kept] oldLoaded ==> !doDelete && newValue == oldValue && oldValue.processedCounter == old(oldValue.processedCounter)
//@   ensures [withdrawn-iff-waiting] oldLoaded ==> (waiting <==> (exists i int :: {old(oldValue.orderedRequest[i])} 0 <= i && i < old(len(oldValue.orderedRequest)) && old(oldValue.orderedRequest[i]) == reqChan))
//@   ensures [withdrawn] oldLoaded && waiting ==> len(oldValue.orderedRequest) == old(len(oldValue.orderedRequest)) - 1 && (forall i int :: {oldValue.orderedRequest[i]} 0 <= i && i < len(oldValue.orderedRequest) ==> oldValue.orderedRequest[i] != reqChan)
//@   ensures [order-kept] oldLoaded && waiting ==> (exists k int :: {old(oldValue.orderedRequest[k])} 0 <= k && k < old(len(oldValue.orderedRequest)) && old(oldValue.orderedRequest[k]) == reqChan && (forall i int :: {oldValue.orderedRequest[i]} 0 <= i && i < k ==> oldValue.orderedRequest[i] == old(oldValue.orderedRequest[i])) && (forall i int :: {oldValue.orderedRequest[i]} k <= i && i < len(oldValue.orderedRequest) ==> oldValue.orderedRequest[i] == old(oldValue.orderedRequest[i + 1])))
//@   ensures [not-waiting] oldLoaded && !waiting ==> len(oldValue.orderedRequest) == old(len(oldValue.orderedRequest)) && (forall i int :: {oldValue.orderedRequest[i]} 0 <= i && i < len(oldValue.orderedRequest) ==> oldValue.orderedRequest[i] == old(oldValue.orderedRequest[i]))
//@   ensures [admits-nobody] notCalled(close)
//@   ensures [inv] oldLoaded ==> epInv(oldValue, lim)
//@   loop 0:
//@     invariant [scanned] forall k int :: {oldValue.orderedRequest[k]} 0 <= k && k < #iter ==> oldValue.orderedRequest[k] != reqChan
//@     invariant [bounds] 0 <= #iter && #iter <= len(oldValue.orderedRequest) && len(oldValue.orderedRequest) < 1000000
//@     invariant [untouched] !waiting && len(oldValue.orderedRequest) == old(len(oldValue.orderedRequest)) && oldValue.processedCounter == old(oldValue.processedCounter)
//@     invariant [same] forall k int :: {oldValue.orderedRequest[k]} 0 <= k && k < len(oldValue.orderedRequest) ==> oldValue.orderedRequest[k] == old(oldValue.orderedRequest[k])
//@     decreases len(oldValue.orderedRequest) - #iter
