//go:build verif

// Contracts for package net (sockets; checked by /verif/govc; comment-only, compiled only with -tags verif).
package net

// Assumed contracts (socket I/O is not under contract):
//
//@ func (*UDPConn) WriteMulticast(ctx context.Context, raddr *net.UDPAddr, buffer []byte, opts ...MulticastOption) (err error)
//@   trusted
//
//@ func (*UDPConn) WriteWithContext(ctx context.Context, raddr *net.UDPAddr, buffer []byte) (err error)
//@   trusted
//
//@ func (*UDPConn) Network() (n string)
//@   trusted
