//go:build verif

// Contracts for package inactivity (checked by /verif/govc; comment-only, compiled only with -tags verif).
package inactivity

// ---- C18: inactivity monitor ------------------------------------------------------------------------
//
// The monitor calls its onInactive callback at a housekeeping tick exactly when a full period has
// passed since the last recorded activity; every received message (Notify) moves that instant to the
// current time.
//
//@ func (*Monitor) Notify()
//@   requires m != nil
//@   modifies m.lastActivity
//@   ensures [refreshed] callCount(Now) == 1 && asTime(atomicLoad(m.lastActivity)) == callRes(Now, 0, 0)
//
//@ func (*Monitor) LastActivity() (t time.Time)
//@   requires m != nil
//@   ensures [get] t == asTime(atomicLoad(m.lastActivity))
//
//@ func (*Monitor) CheckInactivity(now time.Time, cc C)
//@   requires m != nil
//@   opaque-calls pure
//@   ensures [at-most-once] callCount(onInactive) <= 1
//@   ensures [close-iff] called(onInactive) <==> (m.onInactive != nil && m.duration != 0 && now > asTime(atomicLoad(m.lastActivity)) + m.duration)
//@   ensures [passes-conn] called(onInactive) ==> callArg(onInactive, 0, 0) == cc
//@   ensures [idle] atomicLoad(m.lastActivity) == old(atomicLoad(m.lastActivity))
//
// ---- C18: keep-alive ----------------------------------------------------------------------------------
//
// Every OnInactive (one idle period without traffic) counts one failure; the connection is closed
// exactly when the count exceeds maxRetries, otherwise one ping of a NEW generation is sent and the
// superseded ping is cancelled. A pong resets the count only if it answers the current generation.
//
//@ func (*KeepAlive) checkCancelPing()
//@   trusted
//@   modifies m.cancelPing
//
//@ func (*KeepAlive) incrementFails() (v uint32)
//@   inline
//
//@ func (*KeepAlive) resetFails()
//@   inline
//
//@ func (*KeepAlive) OnInactive(cc C)
//@   requires m != nil && atomicLoad(m.numFails) < 4294967295 && atomicLoad(m.pongToken) < 9223372036854775807
//@   modifies m.numFails, m.pongToken, m.cancelPing
//@   opaque-calls pure
//@   ensures [counts] atomicLoad(m.numFails) == old(atomicLoad(m.numFails)) + 1
//@   ensures [close-iff] called(onInactive) <==> old(atomicLoad(m.numFails)) + 1 > m.maxRetries
//@   ensures [close-once] callCount(onInactive) <= 1 && (called(onInactive) ==> callArg(onInactive, 0, 0) == cc)
//@   ensures [ping-iff] callCount(sendPing) <= 1 && (called(sendPing) <==> old(atomicLoad(m.numFails)) + 1 <= m.maxRetries)
//@   ensures [new-generation] called(sendPing) ==> atomicLoad(m.pongToken) == old(atomicLoad(m.pongToken)) + 1
//@   ensures [same-generation] !called(sendPing) ==> atomicLoad(m.pongToken) == old(atomicLoad(m.pongToken))
//@   ensures [cancels-superseded] callCount(checkCancelPing) == 1
//
//@ func (*KeepAlive) OnInactive$1()
//@   requires m != nil
//@   modifies m.numFails
//@   ensures [credit-current] atomicLoad(m.pongToken) == pongToken ==> atomicLoad(m.numFails) == 0
//@   ensures [late-pong-not-credited] atomicLoad(m.pongToken) != pongToken ==> atomicLoad(m.numFails) == old(atomicLoad(m.numFails))
//
// Known finding D12 (see /verif/KNOWN_FINDINGS.txt): ordinary received traffic does not reset the
// failure count - Monitor.Notify cannot reach the KeepAlive that hangs behind its callback. The clause
// below is what the property asks for; it is kept as a probe that is expected to fail.
//
//@ func VerifTrafficResetsCount(k *KeepAlive, mon *Monitor, cc C)
//@   requires k != nil && mon != nil && atomicLoad(k.numFails) < 4294967295 && atomicLoad(k.pongToken) < 9223372036854775807
//@   modifies k.numFails, k.pongToken, k.cancelPing, mon.lastActivity
//@   opaque-calls pure
//@   ensures [traffic-resets] atomicLoad(k.numFails) == 0
//@   known-finding [traffic-resets] D12: true

// VerifTrafficResetsCount is a ghost function: one idle period is counted, then a message is received.
func VerifTrafficResetsCount[C Conn](k *KeepAlive[C], mon *Monitor[C], cc C) {
	k.OnInactive(cc)
	mon.Notify()
}
