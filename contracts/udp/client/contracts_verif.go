//go:build verif

// Contracts for package client (UDP/DTLS connection; checked by /verif/govc; comment-only, compiled only with -tags verif).
package client

// ---- C06: retransmission of confirmable requests -------------------------------------------------
//
// A pending confirmable (midElement) is retransmitted by the housekeeping tick only while it is not
// expired: the (c+1)-th copy goes out only after start + (c+1)*ACK_TIMEOUT, and only while fewer than
// MAX_RETRANSMIT copies were sent; every copy increments the counter.
//
//@ func (*midElement) IsExpired(now time.Time, maxRetransmit uint32) (r bool)
//@   requires m != nil
//@   ensures [iff] r <==> ((m.deadline != 0 && now > m.deadline) || atomicLoad(m.retransmit) >= maxRetransmit)
//
//@ func (*midElement) Retransmit(now time.Time, acknowledgeTimeout time.Duration) (r bool)
//@   requires m != nil && 0 <= acknowledgeTimeout && acknowledgeTimeout <= 1000000000000 && atomicLoad(m.retransmit) < 1000000
//@   modifies m.retransmit
//@   ensures [due-iff] r <==> now > m.start + acknowledgeTimeout * (old(atomicLoad(m.retransmit)) + 1)
//@   ensures [counts] r ==> atomicLoad(m.retransmit) == old(atomicLoad(m.retransmit)) + 1
//@   ensures [idle] !r ==> atomicLoad(m.retransmit) == old(atomicLoad(m.retransmit))
//
// Assumed contracts (not verified here) of what checkMidHandlerContainer calls:
//
//@ func (*midElement) ReleaseMessage(cc *Conn)
//@   trusted
//@   requires m != nil
//@   modifies m.private.msg
//
//@ func (*midElement) GetMessage(cc *Conn) (msg *pool.Message, ok bool, err error)
//@   trusted
//@   requires m != nil
//@   ensures (ok ==> msg != nil && err == nil) && (!ok ==> msg == nil)
//
//@ func (*Conn) ReleaseMessage(m *pool.Message)
//@   trusted
//
//@ func (Session) WriteMessage(req *pool.Message) (err error)
//@   trusted
//
// One housekeeping visit of a pending confirmable: a copy is sent at most once, only if the entry is not
// expired and the next retransmission is due; an expired entry is removed and never sent.
//
//@ func (*Conn) checkMidHandlerContainer(now time.Time, maxRetransmit uint32, acknowledgeTimeout time.Duration, key int32, value *midElement)
//@   requires cc != nil && value != nil && cc.midHandlerContainer != nil
//@   requires 0 <= acknowledgeTimeout && acknowledgeTimeout <= 1000000000000 && atomicLoad(value.retransmit) < 1000000
//@   opaque-calls pure
//@   modifies value.private.msg, value.retransmit
//@   ensures [at-most-one] callCount(WriteMessage) <= 1
//@   ensures [send-guard] called(WriteMessage) ==> !((value.deadline != 0 && now > value.deadline) || old(atomicLoad(value.retransmit)) >= maxRetransmit) && now > value.start + acknowledgeTimeout * (old(atomicLoad(value.retransmit)) + 1) && atomicLoad(value.retransmit) == old(atomicLoad(value.retransmit)) + 1
//@   ensures [expired-removed] ((value.deadline != 0 && now > value.deadline) || old(atomicLoad(value.retransmit)) >= maxRetransmit) ==> notCalled(WriteMessage) && called(Delete) && called(ReleaseMessage)
//@   ensures [not-due] !((value.deadline != 0 && now > value.deadline) || old(atomicLoad(value.retransmit)) >= maxRetransmit) && !(now > value.start + acknowledgeTimeout * (old(atomicLoad(value.retransmit)) + 1)) ==> notCalled(WriteMessage) && notCalled(Delete) && atomicLoad(value.retransmit) == old(atomicLoad(value.retransmit))

// ---- C05: de-duplication of datagram requests by message ID ----------------------------------------
//
// The reply to a request is stored in the response cache under the REQUEST's message ID, the cache is
// consulted under that same key before the handler is dispatched, a hit never reaches the handler and
// is answered with the cached reply re-labelled with the duplicate's message ID; lookup, dispatch and
// store all happen while the per-message-ID mutex of that ID is held.
//
// Assumed contracts (not verified here): the cache behind the MessageCache interface (pkg/cache is
// proved under C14; marshalling under C01), the application handler (arbitrary effect on both
// messages), the per-key mutex (udp/client/mutexmap.go), the inactivity monitor.
//
//@ func (MessageCache) Load(key string, msg *pool.Message) (ok bool, err error)
//@   trusted
//@   modifies *msg
//
//@ func (MessageCache) Store(key string, msg *pool.Message) (err error)
//@   trusted
//
//@ func (*Conn) handle(w *responsewriter.ResponseWriter, m *pool.Message)
//@   trusted
//@   modifies *w.response, *m
//
//@ func (*Conn) GetMessageID() (m int32)
//@   trusted
//@   ensures 0 <= m && m <= 65535
//
//@ func (*MutexMap) Lock(key interface{}) (u Unlocker)
//@   trusted
//
//@ func (Unlocker) Unlock()
//@   trusted
//
//@ func (InactivityMonitor) Notify()
//@   trusted
//
//@ func (*Conn) closeConnection()
//@   trusted
//
//@ func (*Conn) getResponseFromCache(mid int32, resp *pool.Message) (ok bool, err error)
//@   inline
//
//@ func (*Conn) addResponseToCache(reqMessageID int32, resp *pool.Message) (err error)
//@   inline
//
//@ func isPongOrResetResponse(w *responsewriter.ResponseWriter) (b bool)
//@   inline
//
//@ func sendJustAcknowledgeMessage(reqType message.Type, w *responsewriter.ResponseWriter) (b bool)
//@   inline
//
//@ func (*Conn) checkResponseCache(req *pool.Message, w *responsewriter.ResponseWriter) (ok bool, err error)
//@   requires cc != nil && req != nil && w != nil && w.response != nil && w.response != req
//@   modifies *w.response
//@   ensures [lookup-iff] (callCount(Load) == 1) <==> (req.msg.Type == 0 || req.msg.Type == 1)
//@   ensures [lookup-at-most-once] callCount(Load) <= 1
//@   ensures [lookup-key] called(Load) ==> callArg(Load, 0, 1) == itoa(req.msg.MessageID) && callArg(Load, 0, 2) == w.response
//@   ensures [hit-iff] ok <==> (called(Load) && callRes(Load, 0, 0))
//@   ensures [hit-reply] ok ==> err == nil && w.response.msg.MessageID == req.msg.MessageID && w.response.msg.Type == ite(req.msg.Type == 0, 2, 1)
//@   ensures [never-stores] notCalled(Store)
//
//@ func (*Conn) processResponse(reqType message.Type, reqMessageID int32, w *responsewriter.ResponseWriter) (err error)
//@   requires cc != nil && w != nil && w.response != nil
//@   modifies w.response.msg.MessageID, w.response.msg.Type, w.response.msg.Code, w.response.isModified, w.response.msg.Token, w.response.msg.Token[0 : cap(w.response.msg.Token)]
//@   ensures [store-at-most-once] callCount(Store) <= 1
//@   ensures [store-key] called(Store) ==> callArg(Store, 0, 1) == itoa(reqMessageID) && callArg(Store, 0, 2) == w.response
//@   ensures [store-con] reqType == 0 && !(old(w.response.isModified) && (old(w.response.msg.Type) == 3 || old(w.response.msg.Code) == 0)) ==> called(Store)
//@   ensures [store-non] reqType == 1 && old(w.response.isModified) && !(old(w.response.msg.Type) == 3 || old(w.response.msg.Code) == 0) ==> called(Store)
//@   ensures [reply-con] reqType == 0 && err == nil ==> w.response.msg.MessageID == reqMessageID && w.response.msg.Type == 2
//@   ensures [never-looks-up] notCalled(Load)
//
//@ func (*Conn) handleReq(w *responsewriter.ResponseWriter, req *pool.Message)
//@   opaque-calls pure
//@   requires cc != nil && req != nil && w != nil && w.response != nil && w.response != req && cc.msgIDMutex != nil
//@   modifies anything
//@   ensures [lock-key] callCount(Lock) == 1 && payload(callArg(Lock, 0, 1)) == old(req.msg.MessageID)
//@   ensures [unlock] callCount(Unlock) == 1 && callArg(Unlock, 0, 0) == callRes(Lock, 0, 0)
//@   ensures [check-first] callCount(checkResponseCache) == 1 && callSeq(Lock, 0) < callSeq(checkResponseCache, 0) && callSeq(checkResponseCache, 0) < callSeq(Unlock, 0)
//@   ensures [hit-no-handler] callRes(checkResponseCache, 0, 0) ==> notCalled(handle) && notCalled(processResponse)
//@   ensures [error-no-handler] callRes(checkResponseCache, 0, 1) != nil ==> notCalled(handle) && notCalled(processResponse)
//@   ensures [activity] called(Notify)
//@   ensures [handler-once] callCount(handle) <= 1
//@   ensures [handler-under-lock] called(handle) ==> callSeq(checkResponseCache, 0) < callSeq(handle, 0) && callSeq(handle, 0) < callSeq(processResponse, 0) && callSeq(processResponse, 0) < callSeq(Unlock, 0)
//@   ensures [store-same-id] called(handle) ==> callCount(processResponse) == 1 && callArg(processResponse, 0, 2) == old(req.msg.MessageID) && callArg(processResponse, 0, 1) == old(req.msg.Type) && callArg(processResponse, 0, 3) == w

// ---- C18: every received datagram message counts as activity --------------------------------------
//
// A datagram that decodes and is not dropped by the request monitor refreshes the inactivity monitor
// before anything can consume it (pings, stray ACK/RST handled inline included); so does every request
// that reaches handleReq.
//
// Assumed contracts (unverified surroundings of Process):
//
//@ func (Session) MaxMessageSize() (n uint32)
//@   trusted
//
//@ func (Session) Context() (c context.Context)
//@   trusted
//
//@ func (*Conn) Context() (c context.Context)
//@   trusted
//
//@ func (*Conn) AcquireMessage(ctx context.Context) (m *pool.Message)
//@   trusted
//@   ensures m != nil
//
//@ func (*Conn) Sequence() (s uint64)
//@   trusted
//
//@ func (*Conn) checkMyMessageID(req *pool.Message)
//@   trusted
//
//@ func (*Conn) handleSpecialMessages(r *pool.Message) (handled bool)
//@   trusted
//
//@ func (*Conn) Process(cm *coapNet.ControlMessage, datagram []byte) (err error)
//@   requires cc != nil
//@   modifies anything
//@   opaque-calls pure
//@   ensures [every-message-counts] called(UnmarshalWithDecoder) && callRes(UnmarshalWithDecoder, 0, 1) == nil && called(requestMonitor) && callRes(requestMonitor, 0, 1) == nil && !callRes(requestMonitor, 0, 0) ==> called(Notify)
//@   ensures [counts-before-consumed] called(handleSpecialMessages) ==> called(Notify) && callSeq(Notify, 0) < callSeq(handleSpecialMessages, 0)
