//go:build verif

// Contracts for package client (UDP/DTLS connection; checked by /verif/govc; comment-only, compiled only with -tags verif).
package client

// ---- C06: retransmission of confirmable requests -------------------------------------------------
//
// A pending confirmable (midElement) is retransmitted by the housekeeping tick only while it is not
// expired: the (c+1)-th copy goes out only after start + (c+1)*ACK_TIMEOUT, and only while fewer than
// MAX_RETRANSMIT copies were sent; every copy increments the counter.
//
//@ func (*midElement) IsExpired(now time.Time, maxRetransmit uint32) (r bool)
//@   requires m != nil
//@   ensures [iff] r <==> ((m.deadline != 0 && now > m.deadline) || atomicLoad(m.retransmit) >= maxRetransmit)
//
//@ func (*midElement) Retransmit(now time.Time, acknowledgeTimeout time.Duration) (r bool)
//@   requires m != nil && 0 <= acknowledgeTimeout && acknowledgeTimeout <= 1000000000000 && atomicLoad(m.retransmit) < 1000000
//@   modifies m.retransmit
//@   ensures [due-iff] r <==> now > m.start + acknowledgeTimeout * (old(atomicLoad(m.retransmit)) + 1)
//@   ensures [counts] r ==> atomicLoad(m.retransmit) == old(atomicLoad(m.retransmit)) + 1
//@   ensures [idle] !r ==> atomicLoad(m.retransmit) == old(atomicLoad(m.retransmit))
//
// Assumed contracts (not verified here) of what checkMidHandlerContainer calls:
//
//@ func (*midElement) ReleaseMessage(cc *Conn)
//@   trusted
//@   requires m != nil
//@   modifies m.private.msg
//
//@ func (*midElement) GetMessage(cc *Conn) (msg *pool.Message, ok bool, err error)
//@   trusted
//@   requires m != nil
//@   ensures (ok ==> msg != nil && err == nil) && (!ok ==> msg == nil)
//
//@ func (*Conn) ReleaseMessage(m *pool.Message)
//@   trusted
//
//@ func (Session) WriteMessage(req *pool.Message) (err error)
//@   trusted
//
// One housekeeping visit of a pending confirmable: a copy is sent at most once, only if the entry is not
// expired and the next retransmission is due; an expired entry is removed and never sent.
//
//@ func (*Conn) checkMidHandlerContainer(now time.Time, maxRetransmit uint32, acknowledgeTimeout time.Duration, key int32, value *midElement)
//@   requires cc != nil && value != nil && cc.midHandlerContainer != nil
//@   requires 0 <= acknowledgeTimeout && acknowledgeTimeout <= 1000000000000 && atomicLoad(value.retransmit) < 1000000
//@   opaque-calls pure
//@   ensures [at-most-one] callCount(WriteMessage) <= 1
//@   ensures [send-guard] called(WriteMessage) ==> !((value.deadline != 0 && now > value.deadline) || old(atomicLoad(value.retransmit)) >= maxRetransmit) && now > value.start + acknowledgeTimeout * (old(atomicLoad(value.retransmit)) + 1) && atomicLoad(value.retransmit) == old(atomicLoad(value.retransmit)) + 1
//@   ensures [expired-removed] ((value.deadline != 0 && now > value.deadline) || old(atomicLoad(value.retransmit)) >= maxRetransmit) ==> notCalled(WriteMessage) && called(Delete) && called(ReleaseMessage)
//@   ensures [not-due] !((value.deadline != 0 && now > value.deadline) || old(atomicLoad(value.retransmit)) >= maxRetransmit) && !(now > value.start + acknowledgeTimeout * (old(atomicLoad(value.retransmit)) + 1)) ==> notCalled(WriteMessage) && notCalled(Delete) && atomicLoad(value.retransmit) == old(atomicLoad(value.retransmit))
