//go:build verif

// Contracts for package client (UDP/DTLS connection; checked by /verif/govc; comment-only, compiled only with -tags verif).
package client

// Fields of a connection that are set by the constructor and never assigned again:
//
//@ immutable Conn.tokenHandlerContainer
//@ immutable Conn.midHandlerContainer
//@ immutable Conn.observationHandler
//@ immutable Conn.msgIDMutex
//@ immutable Conn.session
//@ immutable Conn.receivedMessageReader
//
// ---- C06: retransmission of confirmable requests -------------------------------------------------
//
// A pending confirmable (midElement) is retransmitted by the housekeeping tick only while it is not
// expired: the (c+1)-th copy goes out only after start + (c+1)*ACK_TIMEOUT, and only while fewer than
// MAX_RETRANSMIT copies were sent; every copy increments the counter.
//
//@ func (*midElement) IsExpired(now time.Time, maxRetransmit uint32) (r bool)
//@   requires m != nil
//@   ensures [iff] r <==> ((m.deadline != 0 && now > m.deadline) || atomicLoad(m.retransmit) >= maxRetransmit)
//
//@ func (*midElement) Retransmit(now time.Time, acknowledgeTimeout time.Duration) (r bool)
//@   requires m != nil && 0 <= acknowledgeTimeout && acknowledgeTimeout <= 1000000000000 && atomicLoad(m.retransmit) < 1000000
//@   modifies m.retransmit
//@   ensures [due-iff] r <==> now > m.start + acknowledgeTimeout * (old(atomicLoad(m.retransmit)) + 1)
//@   ensures [counts] r ==> atomicLoad(m.retransmit) == old(atomicLoad(m.retransmit)) + 1
//@   ensures [idle] !r ==> atomicLoad(m.retransmit) == old(atomicLoad(m.retransmit))
//
// Assumed contracts (not verified here) of what checkMidHandlerContainer calls:
//
// (midElement.ReleaseMessage / GetMessage are proved under C12 below: the stored clone is guarded by the
// element's own mutex.)
//
//@ guarded midElement.private.msg by midElement.private.Mutex
//
//@ func (*midElement) ReleaseMessage(cc *Conn)
//@   requires m != nil
//@   atomic [released-at-most-once] (old(m.private.msg) != nil ==> callCount(ReleaseMessage) == 1 && callArg(ReleaseMessage, 0, 1) == old(m.private.msg)) && (old(m.private.msg) == nil ==> notCalled(ReleaseMessage))
//@   atomic [forgotten] m.private.msg == nil
//
// GetMessage hands out a COPY of the pending message, made while the element's mutex is held: the incoming
// acknowledgement releases the pending message under the same mutex (ReleaseMessage above), so a copy made
// outside the critical section could read a message that is already back in the pool (seed C12c-2).
//@ func (*midElement) GetMessage(cc *Conn) (msg *pool.Message, ok bool, err error)
//@   requires m != nil
//@   atomic [stored-stays] m.private.msg == old(m.private.msg)
//@   atomic [released-means-none] old(m.private.msg) == nil ==> !ok && msg == nil && err == nil && notCalled(AcquireMessage)
//@   atomic [hands-out-a-copy] ok ==> err == nil && msg != nil && msg != old(m.private.msg) && callCount(AcquireMessage) == 1 && msg == callRes(AcquireMessage, 0, 0) && callCount(Clone) == 1 && callArg(Clone, 0, 0) == old(m.private.msg) && callArg(Clone, 0, 1) == msg && notCalled(ReleaseMessage)
//@   ensures [copied-inside-the-critical-section] called(Clone) ==> callSeq(mutexLock, 0) < callSeq(Clone, 0) && callSeq(Clone, 0) < callSeq(mutexUnlock, 0) && callCount(mutexUnlock) == 1
//@   atomic [failed-copy-returned-to-pool] called(Clone) && callRes(Clone, 0, 0) != nil ==> !ok && msg == nil && err != nil && callCount(ReleaseMessage) == 1 && callArg(ReleaseMessage, 0, 1) == callRes(AcquireMessage, 0, 0)
//@   ensures (ok ==> msg != nil && err == nil) && (!ok ==> msg == nil)
//
//@ func (*Conn) ReleaseMessage(m *pool.Message)
//@   trusted
//
//@ func (Session) WriteMessage(req *pool.Message) (err error)
//@   trusted
//
// One housekeeping visit of a pending confirmable: a copy is sent at most once, only if the entry is not
// expired and the next retransmission is due; an expired entry is removed and never sent.
//
//@ func (*Conn) checkMidHandlerContainer(now time.Time, maxRetransmit uint32, acknowledgeTimeout time.Duration, key int32, value *midElement)
//@   requires cc != nil && value != nil && cc.midHandlerContainer != nil
//@   requires 0 <= acknowledgeTimeout && acknowledgeTimeout <= 1000000000000 && atomicLoad(value.retransmit) < 1000000
//@   opaque-calls pure
//@   modifies value.private.msg, value.retransmit
//@   ensures [at-most-one] callCount(WriteMessage) <= 1
//@   ensures [send-guard] called(WriteMessage) ==> !((value.deadline != 0 && now > value.deadline) || old(atomicLoad(value.retransmit)) >= maxRetransmit) && now > value.start + acknowledgeTimeout * (old(atomicLoad(value.retransmit)) + 1) && atomicLoad(value.retransmit) == old(atomicLoad(value.retransmit)) + 1
//@   ensures [a-copy-that-was-sent-keeps-the-entry] called(WriteMessage) ==> notCalled(Delete) && callCount(ReleaseMessage) == 1 && callArg(ReleaseMessage, 0, 1) == callArg(WriteMessage, 0, 1)
//@   ensures [expired-removed] ((value.deadline != 0 && now > value.deadline) || old(atomicLoad(value.retransmit)) >= maxRetransmit) ==> notCalled(WriteMessage) && called(Delete) && called(ReleaseMessage)
//@   ensures [not-due] !((value.deadline != 0 && now > value.deadline) || old(atomicLoad(value.retransmit)) >= maxRetransmit) && !(now > value.start + acknowledgeTimeout * (old(atomicLoad(value.retransmit)) + 1)) ==> notCalled(WriteMessage) && notCalled(Delete) && atomicLoad(value.retransmit) == old(atomicLoad(value.retransmit))

// The housekeeping sweep over the pending confirmables visits EVERY entry on every tick: its callback
// hands each entry to checkMidHandlerContainer exactly once and always asks for the next one (seed C13d-2
// returned "still pending" from the callback, so the sweep stopped at the first expired entry and a tick
// removed at most one).
//
//@ func (*Conn) CheckExpirations$1(key int32, value *midElement) (cont bool)
//@   requires value != nil
//@   assumes x.cc != nil && x.cc.midHandlerContainer != nil && 0 <= x.acknowledgeTimeout && x.acknowledgeTimeout <= 1000000000000 && atomicLoad(value.retransmit) < 1000000
//@   modifies anything
//@   opaque-calls pure
//@   ensures [sweep-goes-on] cont
//@   ensures [every-entry-is-checked-once] callCount(checkMidHandlerContainer) == 1 && callArg(checkMidHandlerContainer, 0, 4) == key && callArg(checkMidHandlerContainer, 0, 5) == value
//
// ---- C05: de-duplication of datagram requests by message ID ----------------------------------------
//
// The reply to a request is stored in the response cache under the REQUEST's message ID, the cache is
// consulted under that same key before the handler is dispatched, a hit never reaches the handler and
// is answered with the cached reply re-labelled with the duplicate's message ID; lookup, dispatch and
// store all happen while the per-message-ID mutex of that ID is held.
//
// Assumed contracts (not verified here): the cache behind the MessageCache interface (pkg/cache is
// proved under C14; marshalling under C01), the application handler (arbitrary effect on both
// messages), the per-key mutex (udp/client/mutexmap.go), the inactivity monitor.
//
// The default response cache stores its OWN copy of the marshalled reply: the slice MarshalWithEncoder
// returns is the message's internal marshal buffer, which is written over as soon as the pooled message is
// reused for another reply (seed C05c-1 stored that slice itself, so a duplicate was answered with another
// exchange's bytes).
//
//@ func (*messageCache) Store(key string, msg *pool.Message) (err error)
//@   requires m != nil && m.c != nil && m.c.Map != nil && msg != nil
//@   modifies anything
//@   opaque-calls pure
//@   ensures [marshal-failure-stores-nothing] err != nil ==> notCalled(LoadOrStore) && called(MarshalWithEncoder) && callRes(MarshalWithEncoder, 0, 1) != nil
//@   ensures [stores-once-under-the-key] err == nil ==> callCount(LoadOrStore) == 1 && callArg(LoadOrStore, 0, 1) == key && callCount(MarshalWithEncoder) == 1 && callArg(MarshalWithEncoder, 0, 0) == msg
//@   ensures [stores-its-own-copy] err == nil ==> len(callArg(LoadOrStore, 0, 2).data) == len(callRes(MarshalWithEncoder, 0, 0)) && (len(callArg(LoadOrStore, 0, 2).data) > 0 ==> fresh(callArg(LoadOrStore, 0, 2).data)) && bytesEq(callArg(LoadOrStore, 0, 2).data, callRes(MarshalWithEncoder, 0, 0))
//
//@ func (MessageCache) Load(key string, msg *pool.Message) (ok bool, err error)
//@   trusted
//@   modifies *msg
//
//@ func (MessageCache) Store(key string, msg *pool.Message) (err error)
//@   trusted
//
// handle (dispatch by token, proved under C03): the application handlers it reaches are arbitrary.
//
//@ func (*Conn) handle(w *responsewriter.ResponseWriter, m *pool.Message)
//@   requires cc != nil && m != nil && cc.tokenHandlerContainer != nil && cc.observationHandler != nil && cc.observationHandler.observations != nil
//@   modifies anything
//@   opaque-calls pure
//@   ensures [keeps-writer] w != nil ==> w.response == old(w.response)
//@   ensures [separate-dropped] callRes(IsSeparateMessage, 0, 0) ==> notCalled(LoadAndDelete) && notCalled(Handle) && notCalled(opaque)
//@   ensures [one-shot-by-own-token] !callRes(IsSeparateMessage, 0, 0) && old(cc.blockWise) == nil ==> callCount(LoadAndDelete) == 1 && callCount(Token) == 1 && callArg(Token, 0, 0) == m && callCount(Hash) == 1 && callArg(Hash, 0, 0) == callRes(Token, 0, 0) && callArg(LoadAndDelete, 0, 1) == callRes(Hash, 0, 0)
//@   ensures [to-its-continuation] called(LoadAndDelete) && callRes(LoadAndDelete, 0, 1) ==> callCount(opaque) == 1 && callFn(opaque, 0) == callRes(LoadAndDelete, 0, 0) && callArg(opaque, 0, 0) == w && callArg(opaque, 0, 1) == m && notCalled(Handle)
//@   ensures [else-observations] called(LoadAndDelete) && !callRes(LoadAndDelete, 0, 1) ==> notCalled(opaque) && callCount(Handle) == 1 && callArg(Handle, 0, 1) == w && callArg(Handle, 0, 2) == m
//
//@ func (*Conn) GetMessageID() (m int32)
//@   trusted
//@   ensures 0 <= m && m <= 65535
//
//@ func (*MutexMap) Lock(key interface{}) (u Unlocker)
//@   trusted
//
//@ func (Unlocker) Unlock()
//@   trusted
//
//@ func (InactivityMonitor) Notify()
//@   trusted
//
//@ func (*Conn) closeConnection()
//@   trusted
//
//@ func (*Conn) getResponseFromCache(mid int32, resp *pool.Message) (ok bool, err error)
//@   inline
//
//@ func (*Conn) addResponseToCache(reqMessageID int32, resp *pool.Message) (err error)
//@   inline
//
//@ func isPongOrResetResponse(w *responsewriter.ResponseWriter) (b bool)
//@   inline
//
//@ func sendJustAcknowledgeMessage(reqType message.Type, w *responsewriter.ResponseWriter) (b bool)
//@   inline
//
//@ func (*Conn) checkResponseCache(req *pool.Message, w *responsewriter.ResponseWriter) (ok bool, err error)
//@   requires cc != nil && req != nil && w != nil && w.response != nil && w.response != req
//@   modifies *w.response
//@   ensures [lookup-iff] (callCount(Load) == 1) <==> (req.msg.Type == 0 || req.msg.Type == 1)
//@   ensures [lookup-at-most-once] callCount(Load) <= 1
//@   ensures [lookup-key] called(Load) ==> callArg(Load, 0, 1) == itoa(req.msg.MessageID) && callArg(Load, 0, 2) == w.response
//@   ensures [hit-iff] ok <==> (called(Load) && callRes(Load, 0, 0))
//@   ensures [hit-reply] ok ==> err == nil && w.response.msg.MessageID == req.msg.MessageID && w.response.msg.Type == ite(req.msg.Type == 0, 2, 1)
//@   ensures [never-stores] notCalled(Store)
//
//@ func (*Conn) processResponse(reqType message.Type, reqMessageID int32, w *responsewriter.ResponseWriter) (err error)
//@   requires cc != nil && w != nil && w.response != nil
//@   modifies w.response.msg.MessageID, w.response.msg.Type, w.response.msg.Code, w.response.isModified, w.response.msg.Token, w.response.msg.Token[0 : cap(w.response.msg.Token)]
//@   ensures [store-at-most-once] callCount(Store) <= 1
//@   ensures [store-key] called(Store) ==> callArg(Store, 0, 1) == itoa(reqMessageID) && callArg(Store, 0, 2) == w.response
//@   ensures [store-con] reqType == 0 && !(old(w.response.isModified) && (old(w.response.msg.Type) == 3 || old(w.response.msg.Code) == 0)) ==> called(Store)
//@   ensures [store-non] reqType == 1 && old(w.response.isModified) && !(old(w.response.msg.Type) == 3 || old(w.response.msg.Code) == 0) ==> called(Store)
//@   ensures [reply-con] reqType == 0 && err == nil ==> w.response.msg.MessageID == reqMessageID && w.response.msg.Type == 2
//@   ensures [never-looks-up] notCalled(Load)
//@   ensures [stored-reply-is-final] called(Store) ==> (notCalled(SetToken) || callSeq(SetToken, callCount(SetToken) - 1) < callSeq(Store, 0)) && (notCalled(SetCode) || callSeq(SetCode, callCount(SetCode) - 1) < callSeq(Store, 0)) && (notCalled(SetType) || callSeq(SetType, callCount(SetType) - 1) < callSeq(Store, 0)) && (notCalled(SetMessageID) || callSeq(SetMessageID, callCount(SetMessageID) - 1) < callSeq(Store, 0))
//@   ensures [suppressed-con-gets-bare-ack] reqType == 0 && !old(w.response.isModified) ==> w.response.msg.Code == 0 && w.response.msg.Type == 2 && w.response.msg.MessageID == reqMessageID && w.response.msg.Token == nil
//@   ensures [suppressed-non-gets-nothing] reqType != 0 && !old(w.response.isModified) ==> !w.response.isModified && notCalled(Store)
//
//@ func (*Conn) handleReq(w *responsewriter.ResponseWriter, req *pool.Message)
//@   opaque-calls pure
//@   requires cc != nil && req != nil && w != nil && w.response != nil && w.response != req && cc.msgIDMutex != nil && cc.tokenHandlerContainer != nil && cc.observationHandler != nil && cc.observationHandler.observations != nil
//@   modifies anything
//@   ensures [lock-key] callCount(Lock) == 1 && payload(callArg(Lock, 0, 1)) == old(req.msg.MessageID)
//@   ensures [unlock] callCount(Unlock) == 1 && callArg(Unlock, 0, 0) == callRes(Lock, 0, 0)
//@   ensures [check-first] callCount(checkResponseCache) == 1 && callSeq(Lock, 0) < callSeq(checkResponseCache, 0) && callSeq(checkResponseCache, 0) < callSeq(Unlock, 0)
//@   ensures [hit-no-handler] callRes(checkResponseCache, 0, 0) ==> notCalled(handle) && notCalled(processResponse)
//@   ensures [error-no-handler] callRes(checkResponseCache, 0, 1) != nil ==> notCalled(handle) && notCalled(processResponse)
//@   ensures [activity] called(Notify)
//@   ensures [handler-once] callCount(handle) <= 1
//@   ensures [handler-under-lock] called(handle) ==> callSeq(checkResponseCache, 0) < callSeq(handle, 0) && callSeq(handle, 0) < callSeq(processResponse, 0) && callSeq(processResponse, 0) < callSeq(Unlock, 0)
//@   ensures [store-same-id] called(handle) ==> callCount(processResponse) == 1 && callArg(processResponse, 0, 2) == old(req.msg.MessageID) && callArg(processResponse, 0, 1) == old(req.msg.Type) && callArg(processResponse, 0, 3) == w

// ---- C18: every received datagram message counts as activity --------------------------------------
//
// A datagram that decodes and is not dropped by the request monitor refreshes the inactivity monitor
// before anything can consume it (pings, stray ACK/RST handled inline included); so does every request
// that reaches handleReq.
//
// Assumed contracts (unverified surroundings of Process):
//
//@ func (Session) MaxMessageSize() (n uint32)
//@   trusted
//
//@ func (Session) Context() (c context.Context)
//@   trusted
//
//@ func (*Conn) Context() (c context.Context)
//@   trusted
//
//@ func (*Conn) AcquireMessage(ctx context.Context) (m *pool.Message)
//@   trusted
//@   ensures m != nil && fresh(m) && len(m.msg.Options) == 0 && (cap(m.bufferUnmarshal) == 0 || fresh(m.bufferUnmarshal)) && (cap(m.msg.Options) == 0 || fresh(m.msg.Options)) && (cap(m.msg.Token) == 0 || fresh(m.msg.Token)) && (cap(m.valueBuffer) == 0 || fresh(m.valueBuffer))
//
//@ func (*Conn) Sequence() (s uint64)
//@   trusted
//
//@ func (*Conn) checkMyMessageID(req *pool.Message)
//@   trusted
//
// handleSpecialMessages (C06: matching by message ID): a message whose ID is pending removes that entry
// in one atomic step of the table, so no further copy of the request is sent; the stored clone goes
// back to the pool, and the waiting writer is woken exactly once (its continuation is called with the
// message). Pings are answered through the normal request path; a separate empty ACK without a
// pending entry is dropped.
//
//@ func (*Conn) handleSpecialMessages(r *pool.Message) (handled bool)
//@   requires cc != nil && r != nil && cc.midHandlerContainer != nil && sortedOpts(r.msg.Options)
//@   modifies anything
//@   opaque-calls pure
//@   lockinv [no-nil-element] forall k int :: {present(cc.midHandlerContainer.data, k)} present(cc.midHandlerContainer.data, k) ==> cc.midHandlerContainer.data[k] != nil
//@   ensures [ping-answered] callRes(IsPing, 0, 0) ==> handled && callCount(ProcessReceivedMessageWithHandler) == 1 && notCalled(LoadAndDelete)
//@   ensures [matched-by-message-id] !callRes(IsPing, 0, 0) ==> callCount(LoadAndDelete) == 1 && callArg(LoadAndDelete, 0, 1) == old(r.msg.MessageID)
//@   ensures [pending-entry-ends] called(LoadAndDelete) && callRes(LoadAndDelete, 0, 1) ==> !handled && callCount(handler) == 1 && callArg(handler, 0, 1) == r && callArg(ReleaseMessage, 0, 0) == callRes(LoadAndDelete, 0, 0) && callSeq(LoadAndDelete, 0) < callSeq(handler, 0)
//@   ensures [response-message-balanced] called(LoadAndDelete) && callRes(LoadAndDelete, 0, 1) ==> callCount(AcquireMessage) == 1 && callCount(ReleaseMessage) == 2 && callSeq(ReleaseMessage, 1) == callsTotal() - 1
//@   ensures [nothing-pending] called(LoadAndDelete) && !callRes(LoadAndDelete, 0, 1) ==> notCalled(handler) && notCalled(AcquireMessage) && (handled <==> callRes(IsSeparateMessage, 0, 0))
//
//@ func (*Conn) Process(cm *coapNet.ControlMessage, datagram []byte) (err error)
//@   requires cc != nil && len(datagram) < 1099511627776 && cc.midHandlerContainer != nil
//@   modifies anything
//@   opaque-calls pure
//@   ensures [every-message-counts] called(UnmarshalWithDecoder) && callRes(UnmarshalWithDecoder, 0, 1) == nil && called(requestMonitor) && callRes(requestMonitor, 0, 1) == nil && !callRes(requestMonitor, 0, 0) ==> called(Notify)
//@   ensures [counts-before-consumed] called(handleSpecialMessages) ==> called(Notify) && callSeq(Notify, 0) < callSeq(handleSpecialMessages, 0)

// ---- C03: a response reaches exactly the request that carries its token -----------------------------
//
// Waiting requests are registered in tokenHandlerContainer under the hash of their token. A second
// request with a token that is still outstanding is refused and leaves the first registration alone;
// every registration is removed when the call returns; an incoming message is handed to the
// continuation registered under the hash of ITS token, which is removed by that very step (one-shot),
// and to nobody else.
//
// Assumed contracts (unverified surroundings):
//
// The continuation of a waiting request: the response is hijacked (kept out of the pool) and offered
// to the waiting call without blocking.
//
//@ func (*Conn) doInternal$1(w *responsewriter.ResponseWriter, r *pool.Message)
//@   requires r != nil
//@   modifies anything
//@   ensures [keeps-response] callCount(Hijack) == 1 && callArg(Hijack, 0, 0) == r
//@   ensures [offers-it] callCount(select) == 1 && callSeq(Hijack, 0) < callSeq(select, 0)
//
//@ func (*Conn) doInternal(req *pool.Message) (resp *pool.Message, err error)
//@   requires cc != nil && req != nil && cc.tokenHandlerContainer != nil && cc.midHandlerContainer != nil
//@   modifies anything
//@   opaque-calls pure
//@   signal-channels
//@   ensures [registers-at-most-once] callCount(LoadOrStore) <= 1
//@   ensures [no-token-refused] notCalled(LoadOrStore) ==> err != nil && notCalled(writeMessage)
//@   ensures [outstanding-token-refused] called(LoadOrStore) && callRes(LoadOrStore, 0, 1) ==> err != nil && notCalled(writeMessage) && notCalled(LoadAndDelete)
//@   ensures [registration-removed] called(LoadOrStore) && !callRes(LoadOrStore, 0, 1) ==> callCount(LoadAndDelete) == 1 && callArg(LoadAndDelete, 0, 0) == callArg(LoadOrStore, 0, 0)
//@   ensures [sent-after-registration] called(writeMessage) ==> callSeq(LoadOrStore, 0) < callSeq(writeMessage, 0) && callArg(writeMessage, 0, 1) == req && callSeq(writeMessage, 0) < callSeq(LoadAndDelete, 0)
//@   ensures [own-response] called(select) && err == nil ==> callRes(select, 0, 0) == 2 && resp == callRes(select, 0, 4)
//@   ensures [exclusive-result] err != nil ==> resp == nil

// ---- C06 / C13: entering a confirmable into the pending table ----------------------------------------
//
// prepareWriteMessage: a confirmable request gets a PRIVATE clone (what is retransmitted later), takes
// its NSTART slot BEFORE its retransmission clock starts, is entered under its own message ID, and a
// failed entry gives the slot back at once. The clean-up that is returned removes exactly that entry.
//
//@ func (*Conn) acquireOutstandingInteraction(ctx context.Context) (err error)
//@   trusted
//
//@ func (*Conn) releaseOutstandingInteraction()
//@   trusted
//
//@ func (*Conn) prepareWriteMessage$1()
//@   requires cc != nil
//@   modifies anything
//@   ensures [gives-slot-back] callCount(releaseOutstandingInteraction) == 1
//
//@ func (*Conn) prepareWriteMessage$2()
//@   requires cc != nil && req != nil && cc.midHandlerContainer != nil
//@   modifies anything
//@   ensures [removes-own-entry] callCount(LoadAndDelete) == 1 && callArg(LoadAndDelete, 0, 1) == req.msg.MessageID
//
//@ func (*Conn) prepareWriteMessage(req *pool.Message, handler HandlerFunc) (closeFn func(), err error)
//@   requires cc != nil && req != nil && cc.midHandlerContainer != nil
//@   modifies anything
//@   opaque-calls pure
//@   ensures [only-confirmables-pend] old(req.msg.Type) != 0 ==> notCalled(LoadOrStore) && notCalled(acquireOutstandingInteraction) && err == nil
//@   ensures [private-clone] called(LoadOrStore) ==> callCount(AcquireMessage) == 1 && callCount(Clone) == 1 && callArg(Clone, 0, 0) == req && callArg(Clone, 0, 1) == callRes(AcquireMessage, 0, 0) && callRes(Clone, 0, 0) == nil && callArg(LoadOrStore, 0, 2).private.msg == callRes(AcquireMessage, 0, 0)
//@   ensures [own-mid] called(LoadOrStore) ==> callCount(LoadOrStore) == 1 && callArg(LoadOrStore, 0, 1) == req.msg.MessageID
//@   ensures [clock-starts-with-slot] called(acquireOutstandingInteraction) && called(Now) ==> callSeq(acquireOutstandingInteraction, 0) < callSeq(Now, 0)
//@   ensures [start-is-now] called(LoadOrStore) ==> callCount(Now) == 1 && callArg(LoadOrStore, 0, 2).start == callRes(Now, 0, 0) && atomicLoad(callArg(LoadOrStore, 0, 2).retransmit) == 0
//@   ensures [no-slot-no-entry] called(acquireOutstandingInteraction) && callRes(acquireOutstandingInteraction, 0, 0) != nil ==> err != nil && notCalled(LoadOrStore)
//@   ensures [duplicate-mid-gives-slot-back] called(LoadOrStore) && callRes(LoadOrStore, 0, 1) ==> err != nil && callCount(Execute) == 1
//@   ensures [success-returns-cleanup] err == nil ==> closeFn != nil && callCount(ToFunction) == 1
//
// writeMessage / writeMessageAsync: whatever prepareWriteMessage entered is removed again by the
// returned clean-up, which runs exactly once, on every path, after the attempt to send; nothing is sent
// (and nothing needs removing) when the entry could not be made.
//
//@ func (*Conn) upsertControlInformation(req *pool.Message)
//@   trusted
//
//@ func (*Conn) waitForAcknowledge(req *pool.Message, waitForResponseChan chan struct{}) (err error)
//@   trusted
//
//@ func (*Conn) writeMessageAsync(req *pool.Message) (err error)
//@   requires cc != nil && req != nil && cc.midHandlerContainer != nil
//@   modifies anything
//@   opaque-calls pure
//@   ensures [prepares-once] callCount(prepareWriteMessage) == 1 && callArg(prepareWriteMessage, 0, 1) == req
//@   ensures [not-entered-not-sent] callRes(prepareWriteMessage, 0, 1) != nil ==> err != nil && notCalled(WriteMessage) && notCalled(opaque)
//@   ensures [cleanup-exactly-once] callRes(prepareWriteMessage, 0, 1) == nil ==> callCount(opaque) == 1 && callFn(opaque, 0) == callRes(prepareWriteMessage, 0, 0) && callCount(WriteMessage) == 1 && callSeq(WriteMessage, 0) < callSeq(opaque, 0)
//
//@ func (*Conn) writeMessage(req *pool.Message) (err error)
//@   requires cc != nil && req != nil && cc.midHandlerContainer != nil
//@   modifies anything
//@   opaque-calls pure
//@   ensures [one-way] callCount(prepareWriteMessage) + callCount(writeMessageAsync) == 1
//@   ensures [not-entered-not-sent] called(prepareWriteMessage) && callRes(prepareWriteMessage, 0, 1) != nil ==> err != nil && notCalled(WriteMessage) && notCalled(opaque) && notCalled(waitForAcknowledge)
//@   ensures [cleanup-exactly-once] called(prepareWriteMessage) && callRes(prepareWriteMessage, 0, 1) == nil ==> callCount(opaque) == 1 && callFn(opaque, 0) == callRes(prepareWriteMessage, 0, 0) && callCount(WriteMessage) == 1 && callSeq(WriteMessage, 0) < callSeq(opaque, 0)
//@   ensures [waits-only-after-send] called(waitForAcknowledge) ==> callRes(WriteMessage, 0, 0) == nil && callSeq(WriteMessage, 0) < callSeq(waitForAcknowledge, 0) && callSeq(waitForAcknowledge, 0) < callSeq(opaque, 0)
//@   ensures [ack-needed] called(prepareWriteMessage) && err == nil ==> called(waitForAcknowledge) && callRes(waitForAcknowledge, 0, 0) == nil
//
// AsyncPing: the ping is pending under its own fresh message ID; if it cannot be sent the entry is
// removed at once, otherwise the caller receives the function that removes exactly that entry (and
// releases the ping message, at most once since the removal is one-shot). The pong continuation
// credits only an ACK or RST.
//
//@ func (*Conn) AsyncPing$1(w *responsewriter.ResponseWriter, r *pool.Message)
//@   requires r != nil
//@   modifies anything
//@   opaque-calls pure
//@   ensures [only-ack-or-rst] called(receivedPong) <==> (r.msg.Type == 3 || r.msg.Type == 2)
//@   ensures [once] callCount(receivedPong) <= 1
//
//@ func (*Conn) AsyncPing$2()
//@   requires cc != nil && cc.midHandlerContainer != nil
//@   modifies anything
//@   lockinv [no-nil-element] forall k int :: {present(cc.midHandlerContainer.data, k)} present(cc.midHandlerContainer.data, k) ==> cc.midHandlerContainer.data[k] != nil
//@   ensures [removes-own-entry] callCount(LoadAndDelete) == 1 && callArg(LoadAndDelete, 0, 1) == mid
//@   ensures [releases-iff-removed] called(ReleaseMessage) <==> callRes(LoadAndDelete, 0, 1)
//
//@ func (*Conn) AsyncPing(receivedPong func()) (cancel func(), err error)
//@   requires cc != nil && cc.midHandlerContainer != nil
//@   modifies anything
//@   opaque-calls pure
//@   lockinv [no-nil-element] forall k int :: {present(cc.midHandlerContainer.data, k)} present(cc.midHandlerContainer.data, k) ==> cc.midHandlerContainer.data[k] != nil
//@   ensures [own-fresh-mid] callCount(GetMessageID) == 1 && callCount(LoadOrStore) == 1 && callArg(LoadOrStore, 0, 1) == callRes(GetMessageID, 0, 0)
//@   ensures [duplicate-mid-not-sent] callRes(LoadOrStore, 0, 1) ==> err != nil && notCalled(WriteMessage) && notCalled(LoadAndDelete)
//@   ensures [send-failure-removed] called(WriteMessage) && callRes(WriteMessage, 0, 0) != nil ==> err != nil && callCount(LoadAndDelete) == 1 && callArg(LoadAndDelete, 0, 1) == callRes(GetMessageID, 0, 0)
//@   ensures [success-hands-over-cleanup] err == nil ==> cancel != nil && notCalled(LoadAndDelete) && callCount(WriteMessage) == 1
//@   ensures [ping-message-released-at-most-once] callCount(ReleaseMessage) <= 1 && (err == nil ==> notCalled(ReleaseMessage))

// ---- C12: a pooled message has one owner at a time ---------------------------------------------------
//
// Processing of one received request: the request is released by the connection exactly once, as the
// very last step, unless the application hijacked it (then never); the response message is acquired
// once, released exactly once, after the handler returned and after anything was sent from it; nothing
// is done with either message after its release.
//
//@ func (*Conn) setControlInformation(cm *coapNet.ControlMessage)
//@   trusted
//
//@ func (*Conn) ProcessReceivedMessageWithHandler(req *pool.Message, handler config.HandlerFunc)
//@   requires cc != nil && req != nil && sortedOpts(req.msg.Options) && cc.midHandlerContainer != nil
//@   modifies anything
//@   opaque-calls pure
//@   ensures [response-acquired-once] callCount(AcquireMessage) == 1
//@   ensures [handler-once] callCount(handler) == 1 && callArg(handler, 0, 1) == req && callSeq(AcquireMessage, 0) < callSeq(handler, 0)
//@   ensures [request-released-last-unless-hijacked] callCount(IsHijacked) == 1 && callArg(IsHijacked, 0, 0) == req && (callRes(IsHijacked, 0, 0) ==> callCount(ReleaseMessage) == 1 && callSeq(IsHijacked, 0) == callsTotal() - 1) && (!callRes(IsHijacked, 0, 0) ==> callCount(ReleaseMessage) == 2 && callArg(ReleaseMessage, 1, 1) == req && callSeq(ReleaseMessage, 1) == callsTotal() - 1)
//@   ensures [response-released-once-after-use] callArg(ReleaseMessage, 0, 1) == callRes(Message, callCount(Message) - 1, 0) && callSeq(handler, 0) < callSeq(ReleaseMessage, 0) && (called(writeMessageAsync) ==> callSeq(writeMessageAsync, 0) < callSeq(ReleaseMessage, 0)) && callSeq(ReleaseMessage, 0) < callSeq(IsHijacked, 0)
//@   ensures [sends-what-the-writer-holds] called(writeMessageAsync) ==> callArg(writeMessageAsync, 0, 1) == callRes(Message, 2, 0) && callRes(Message, 2, 0) == callRes(Message, 0, 0) && callSeq(handler, 0) < callSeq(Message, 0)
//@   param handler:
//@     modifies w.response
//@     ensures w.response != nil
