//go:build verif

// Contracts for package server (datagram server; checked by /verif/govc; comment-only, compiled only with -tags verif).
package server

// ---- C03: a discovery with a token in use does not displace the running one ---------------------------
//
// DiscoveryRequest claims the token first (one atomic step of the handler table); a token that belongs to
// a running discovery is refused and nothing of that discovery is touched - neither its handler nor its
// entry in the table of sent requests - and nothing is sent. Both entries of an accepted discovery are
// removed again when the call returns, on every path.
//
//@ immutable Server.multicastRequests
//@ immutable Server.multicastHandler
//
// Assumed contracts (unverified surroundings):
//
//@ func (*Server) conn() (c *coapNet.UDPConn)
//@   trusted
//
//@ func (*Server) DiscoveryRequest(req *pool.Message, address string, receiverFunc func(cc *client.Conn, resp *pool.Message), opts ...coapNet.MulticastOption) (err error)
//@   requires s != nil && req != nil && s.multicastRequests != nil && s.multicastHandler != nil
//@   modifies anything
//@   opaque-calls pure
//@   signal-channels
//@   ensures [claims-token-at-most-once] callCount(LoadOrStore) <= 1
//@   ensures [token-in-use-refused] called(LoadOrStore) && callRes(LoadOrStore, 0, 1) ==> err != nil && notCalled(Store) && notCalled(Delete) && notCalled(LoadAndDelete) && notCalled(WriteMulticast) && notCalled(WriteWithContext)
//@   ensures [nothing-before-the-claim] notCalled(LoadOrStore) ==> err != nil && notCalled(Store) && notCalled(Delete) && notCalled(WriteMulticast) && notCalled(WriteWithContext)
//@   ensures [entries-removed] called(LoadOrStore) && !callRes(LoadOrStore, 0, 1) ==> callCount(Store) == 1 && callCount(Delete) == 1 && callCount(LoadAndDelete) == 1 && callArg(Delete, 0, 1) == callArg(Store, 0, 1) && callArg(LoadAndDelete, 0, 1) == callArg(LoadOrStore, 0, 1) && callArg(Store, 0, 2) == req
//@   ensures [sent-after-registration] (called(WriteMulticast) ==> callSeq(Store, 0) < callSeq(WriteMulticast, 0)) && (called(WriteWithContext) ==> callSeq(Store, 0) < callSeq(WriteWithContext, 0))
