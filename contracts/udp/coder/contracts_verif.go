//go:build verif

// Contracts for package coder (UDP/DTLS framing; checked by /verif/govc; compiled only with -tags verif).
// The ghost function at the end composes the Encode and Decode contracts into the round-trip theorem.
package coder

import "github.com/plgd-dev/go-coap/v3/message"

// ---- RFC 7252 section 3 datagram layout --------------------------------------------------------
//
//   byte 0: Ver(2)=1 | T(2) | TKL(4)    byte 1: Code    bytes 2-3: Message ID (big endian)
//   token (TKL bytes) | options | [0xFF payload]
//
//@ spec udpSize(m message.Message) int = 4 + len(m.Token) + encLen(m.Options, len(m.Options)) + ite(len(m.Payload) > 0, 1 + len(m.Payload), 0)
//@ spec wfUDP(m message.Message) bool = len(m.Token) <= 8 && 0 <= m.MessageID && m.MessageID <= 65535 && 0 <= m.Type && m.Type <= 3
//@ spec srcDisjoint(b []byte, m message.Message) bool = disjoint(b, m.Token) && disjoint(b, m.Payload) && valuesDisjoint(b, m.Options)
//
//@ func (*Coder) Size(m message.Message) (n int, err error)
//@   requires wfOptions(m.Options)
//@   ensures [refuses] len(m.Token) > 8 ==> err != nil && n == -1
//@   ensures [size] len(m.Token) <= 8 ==> err == nil && n == udpSize(m)
//@   ensures [size-bound] err == nil ==> 0 <= encLen(m.Options, len(m.Options)) && encLen(m.Options, len(m.Options)) <= 65809 * len(m.Options)
//
//@ func (*Coder) Encode(m message.Message, buf []byte) (n int, err error)
//@   requires wfOptions(m.Options) && m.Code <= 255
//@   requires srcDisjoint(buf, m)
//@   modifies buf[0 : len(buf)]
//@   ensures [refuses] !wfUDP(m) ==> err != nil && n == -1
//@   known-finding [refuses] D3: 4 <= m.Type && m.Type <= 255
//@   ensures [too-small] wfUDP(m) && len(buf) < udpSize(m) ==> err == message.ErrTooSmall && n == udpSize(m)
//@   ensures [ok] wfUDP(m) && len(buf) >= udpSize(m) ==> err == nil && n == udpSize(m)
//@   ensures [unchanged-on-error] err != nil ==> bytesEqOld(buf, buf)
//@   ensures [header] err == nil && wfUDP(m) ==> buf[0] == 64 + 16*m.Type + len(m.Token) && buf[1] == m.Code && buf[2] == m.MessageID / 256 && buf[3] == m.MessageID % 256
//@   ensures [token] err == nil ==> bytesEqOld(buf[4 : 4 + len(m.Token)], m.Token)
//@   ensures [values-unchanged] forall j int :: {m.Options[j].ID} 0 <= j && j < len(m.Options) ==> bytesEqOld(m.Options[j].Value, m.Options[j].Value)
//@   ensures [options] err == nil ==> optsAt(buf[4 + len(m.Token) : ], m.Options)
//@   ensures [token-now] err == nil ==> bytesEq(buf[4 : 4 + len(m.Token)], m.Token)
//@   ensures [options-now] err == nil ==> optsAtNow(buf[4 + len(m.Token) : ], m.Options)
//@   ensures [payload-now] err == nil && len(m.Payload) > 0 ==> bytesEq(buf[n - len(m.Payload) : n], m.Payload)
//@   ensures [payload] err == nil && len(m.Payload) > 0 ==> buf[n - len(m.Payload) - 1] == 255 && bytesEqOld(buf[n - len(m.Payload) : n], m.Payload)
//
// ---- datagram decoding against the reference parser -------------------------------------------
//
//@ spec udpHdrOK(d []byte) bool = len(d) >= 4 && d[0] / 64 == 1 && d[0] % 16 <= 8 && len(d) >= 4 + d[0] % 16
//@ spec udpOpts(d []byte) []byte = d[4 + d[0] % 16 : ]
//
//@ func (*Coder) Decode(data []byte, m *message.Message) (n int, err error)
//@   requires m != nil
//@   modifies m.Options, m.Options[len(m.Options) : cap(m.Options)], m.Payload, m.Code, m.Token, m.Type, m.MessageID
//@   ensures [rejects-header] !udpHdrOK(data) ==> err != nil
//@   ensures [n] (err == nil ==> n == len(data)) && (err != nil ==> n == -1)
//@   ensures [accepts] err == nil ==> udpHdrOK(data) && exists K int :: {rawStart(udpOpts(data), K)} parsedOK(udpOpts(data), K) && decodedOpts(m.Options, len(old(m.Options)), udpOpts(data), message.CoapOptionDefs, K) && m.Payload == ite(consumedBy(udpOpts(data), K) < len(udpOpts(data)), udpOpts(data)[consumedBy(udpOpts(data), K) : ], nil)
//@   ensures [rejects] err != nil && !errors.Is(err, message.ErrOptionsTooSmall) && udpHdrOK(data) ==> exists K int :: {rawStart(udpOpts(data), K)} prefixOK(udpOpts(data), K) && !terminal(udpOpts(data), rawStart(udpOpts(data), K)) && !rawOK(udpOpts(data), K)
//@   ensures [too-small] errors.Is(err, message.ErrOptionsTooSmall) ==> udpHdrOK(data) && exists K int :: {rawStart(udpOpts(data), K)} prefixOK(udpOpts(data), K) && rawOK(udpOpts(data), K) && cap(old(m.Options)) == len(old(m.Options)) + nKept(udpOpts(data), message.CoapOptionDefs, K)
//@   ensures [too-small-full] errors.Is(err, message.ErrOptionsTooSmall) ==> len(m.Options) == cap(m.Options) && cap(m.Options) == cap(old(m.Options))
//@   ensures [sorted] err == nil && len(old(m.Options)) == 0 ==> sortedOpts(m.Options)
//@   ensures [fields] err == nil ==> m.Type == (data[0] / 16) % 4 && m.Code == data[1] && m.MessageID == 256*data[2] + data[3] && m.Token == ite(data[0] % 16 == 0, nil, data[4 : 4 + data[0] % 16])
//@   ensures [unchanged-on-error] err != nil ==> m.Payload == old(m.Payload) && m.Code == old(m.Code) && m.Token == old(m.Token) && m.Type == old(m.Type) && m.MessageID == old(m.MessageID)
//
// ---- C01: decode(encode(m)) == m for every well-formed message (datagram framing) --------------
//
// wfMsg is the property's precondition list. The theorem is the contract of the ghost function
// below, which really calls Encode and then Decode; it is proved from their contracts and the
// parse-of-encoding lemma (message.VerifParseOfEncoding).
//
//@ spec wfMsg(m message.Message) bool = wfUDP(m) && m.Code <= 255 && wfOptions(m.Options) && legalOpts(m.Options, message.CoapOptionDefs)
//
// isEnc: data is the datagram encoding of m (layout predicates in the current state).
//@ spec isEnc(data []byte, m message.Message) bool = len(data) == udpSize(m) && data[0] % 16 == len(m.Token) && data[0] / 64 == 1 && 0 <= encLen(m.Options, len(m.Options)) && data[0] == 64 + 16*m.Type + len(m.Token) && data[1] == m.Code && data[2] == m.MessageID / 256 && data[3] == m.MessageID % 256 && bytesEq(data[4 : 4 + len(m.Token)], m.Token) && optsAtNow(data[4 + len(m.Token) : ], m.Options) && (len(m.Payload) > 0 ==> data[len(data) - len(m.Payload) - 1] == 255 && bytesEq(data[len(data) - len(m.Payload) : ], m.Payload))
//
// Step 1: decoding an encoding gives the message back.
//
//@ func VerifDecodeEncoded(data []byte, m message.Message, out *message.Message) (n2 int, e2 error)
//@   requires wfMsg(m) && isEnc(data, m)
//@   requires out != nil && len(out.Options) == 0 && cap(out.Options) >= len(m.Options)
//@   requires distinctObjects(m.Options, out.Options)
//@   modifies out.Options, out.Options[0 : cap(out.Options)], out.Payload, out.Code, out.Token, out.Type, out.MessageID
//@   ensures [decodes] e2 == nil && n2 == len(data)
//@   ensures [fields] out.Code == m.Code && out.Type == m.Type && out.MessageID == m.MessageID
//@   ensures [token] len(out.Token) == len(m.Token) && bytesEq(out.Token, m.Token)
//@   ensures [payload] len(out.Payload) == len(m.Payload) && bytesEq(out.Payload, m.Payload)
//@   ensures [opt-count] len(out.Options) == len(m.Options)
//@   ensures [opt-ids] forall j int :: {out.Options[j].ID} 0 <= j && j < len(m.Options) ==> out.Options[j].ID == old(m.Options[j].ID)
//@   ensures [opt-values] forall j int :: {out.Options[j].ID} 0 <= j && j < len(m.Options) ==> out.Options[j].ID == old(m.Options[j].ID) && bytesEq(out.Options[j].Value, old(m.Options[j].Value))

// VerifDecodeEncoded is a ghost function (see the contract above).
func VerifDecodeEncoded(data []byte, m message.Message, out *message.Message) (n2 int, e2 error) {
	n2, e2 = DefaultCoder.Decode(data, out)
	message.VerifDecodedIsEncoded(data[4+len(m.Token):], m.Options, out.Options, message.CoapOptionDefs)
	return
}

// Step 2: Encode produces an encoding; composed with step 1 this is the round-trip theorem.
// All comparisons are against the message as it was on entry.
//
//@ func VerifRoundTrip(m message.Message, buf []byte, out *message.Message) (n int, e1 error, n2 int, e2 error)
//@   requires wfMsg(m) && srcDisjoint(buf, m) && len(buf) >= udpSize(m)
//@   requires out != nil && len(out.Options) == 0 && cap(out.Options) >= len(m.Options)
//@   requires distinctObjects(m.Options, out.Options)
//@   modifies buf[0 : len(buf)], out.Options, out.Options[0 : cap(out.Options)], out.Payload, out.Code, out.Token, out.Type, out.MessageID
//@   ensures [encodes] e1 == nil && n == old(udpSize(m))
//@   ensures [decodes] e2 == nil && n2 == n
//@   ensures [fields] out.Code == m.Code && out.Type == m.Type && out.MessageID == m.MessageID
//@   ensures [token] len(out.Token) == len(m.Token) && bytesEqOld(out.Token, m.Token)
//@   ensures [payload] len(out.Payload) == len(m.Payload) && bytesEqOld(out.Payload, m.Payload)
//@   ensures [opt-count] len(out.Options) == len(m.Options)
//@   ensures [opt-ids] forall j int :: {out.Options[j].ID} 0 <= j && j < len(m.Options) ==> out.Options[j].ID == old(m.Options[j].ID)
//@   ensures [opt-values] forall j int :: {out.Options[j].ID} 0 <= j && j < len(m.Options) ==> out.Options[j].ID == old(m.Options[j].ID) && bytesEqOld(out.Options[j].Value, old(m.Options[j].Value))

// VerifRoundTrip is a ghost function: its contract is the round-trip theorem of C01 for the datagram coder.
func VerifRoundTrip(m message.Message, buf []byte, out *message.Message) (n int, e1 error, n2 int, e2 error) {
	n, e1 = DefaultCoder.Encode(m, buf)
	if e1 != nil {
		return
	}
	n2, e2 = VerifDecodeEncoded(buf[:n], m, out)
	return
}
