//go:build verif

// Contracts for package mux (checked by /verif/govc; comment-only, compiled only with -tags verif).
package mux

// ---- C17: the router dispatches to a longest matching route, else to the default ------------------------
//
// Whether a compiled route matches a path is the business of package regexp; here it is an
// uninterpreted predicate of the matcher object and the path (both unchanged during a Match).
//
//@ spec routeMatches(m *routeRegexp, path string) bool
//
//@ func pathMatch(pattern Route, path string) (b bool)
//@   trusted
//@   ensures b == routeMatches(pattern.regexMatcher, path)
//
//@ func FilterPath(unfiltered string) (p string)
//@   inline
//
//@ func (*routeRegexp) extractRouteParams(path string, routeParams *RouteParams)
//@   trusted
//@   requires routeParams != nil
//@   modifies routeParams.Vars
//
//@ guarded Router.z by Router.m
//@ guarded Router.defaultHandler by Router.m
//
// Match: in one critical section of the router lock, over the table as it is at that instant:
// nothing is returned iff no registered pattern matches the (filtered) path; otherwise the returned
// route is a copy of a registered entry that matches, under its own pattern, and no matching
// registered pattern is longer.
//
//@ func (*Router) Match(path string, routeParams *RouteParams) (matchedRoute *Route, matchedPattern string)
//@   requires r != nil && r.m != nil && routeParams != nil
//@   modifies routeParams.Path, routeParams.Vars, routeParams.PathTemplate
//@   cs-pure mapUnchanged(r.z)
//@   atomic [table-untouched] mapUnchanged(r.z)
//@   atomic [none-iff-no-match] matchedRoute == nil <==> (forall j int :: {present(r.z, j)} present(r.z, j) ==> !routeMatches(r.z[j].regexMatcher, ite(len(path) == 0, "/", path)))
//@   atomic [registered-and-matching] matchedRoute != nil ==> present(r.z, keyId(matchedPattern)) && matchedPattern == keyString(keyId(matchedPattern)) && routeMatches(r.z[keyId(matchedPattern)].regexMatcher, ite(len(path) == 0, "/", path)) && matchedRoute.regexMatcher == r.z[keyId(matchedPattern)].regexMatcher && matchedRoute.h == r.z[keyId(matchedPattern)].h
//@   atomic [longest] matchedRoute != nil ==> (forall j int :: {present(r.z, j)} present(r.z, j) && routeMatches(r.z[j].regexMatcher, ite(len(path) == 0, "/", path)) ==> len(keyString(j)) <= len(matchedPattern))
//@   ensures [params] matchedRoute != nil ==> routeParams.PathTemplate == matchedPattern && routeParams.Path == ite(len(path) == 0, "/", path)
//@   loop 0:
//@     invariant [seen-present] forall j int :: {visited(j)} visited(j) ==> present(r.z, j)
//@     invariant [none-so-far] matchedRoute == nil <==> (forall j int :: {visited(j)} visited(j) ==> !routeMatches(r.z[j].regexMatcher, path))
//@     invariant [best-so-far] matchedRoute != nil ==> visited(keyId(matchedPattern)) && matchedPattern == keyString(keyId(matchedPattern)) && n == len(matchedPattern) && routeMatches(r.z[keyId(matchedPattern)].regexMatcher, path) && matchedRoute.regexMatcher == r.z[keyId(matchedPattern)].regexMatcher && matchedRoute.h == r.z[keyId(matchedPattern)].h
//@     invariant [longest-so-far] matchedRoute != nil ==> (forall j int :: {visited(j)} visited(j) && routeMatches(r.z[j].regexMatcher, path) ==> len(keyString(j)) <= n)
//
// ServeCOAP: exactly one handler chain is invoked - the matched route's handler, or the default handler
// (as read under the router lock) exactly when nothing matches or the path cannot be read - wrapped by
// the middlewares from the last registered (innermost) to the first (outermost). Proved for routers
// with at most two middlewares (the loop is unrolled; the precondition says so).
//
//@ func (Options) Path() (p string, err error)
//@   trusted
//
//@ func (Handler) ServeCOAP(w ResponseWriter, r *Message)
//@   trusted
//
//@ func (*Router) ServeCOAP(w ResponseWriter, req *Message)
//@   requires r != nil && r.m != nil && req != nil && req.Message != nil && req.RouteParams != nil && len(r.middlewares) <= 2
//@   modifies anything
//@   opaque-calls pure
//@   witness dh = defaultHandler
//@   ensures [one-chain] callCount(ServeCOAP) <= 1 && callCount(Match) <= 1
//@   ensures [bad-path-default] notCalled(Match) && dh != nil && len(r.middlewares) == 0 ==> callCount(ServeCOAP) == 1 && callArg(ServeCOAP, 0, 0) == dh
//@   ensures [matched] called(Match) && callRes(Match, 0, 0) != nil && callRes(Match, 0, 0).h != nil && len(r.middlewares) == 0 ==> callCount(ServeCOAP) == 1 && callArg(ServeCOAP, 0, 0) == callRes(Match, 0, 0).h
//@   ensures [default-iff-none] called(Match) && callRes(Match, 0, 0) == nil && dh != nil && len(r.middlewares) == 0 ==> callCount(ServeCOAP) == 1 && callArg(ServeCOAP, 0, 0) == dh
//@   ensures [innermost-first] called(Match) && callRes(Match, 0, 0) != nil && callRes(Match, 0, 0).h != nil && len(r.middlewares) >= 1 ==> callCount(opaque) == len(r.middlewares) && callArg(opaque, 0, 0) == callRes(Match, 0, 0).h
//@   ensures [registration-order] (callCount(opaque) >= 1 ==> callFn(opaque, 0) == r.middlewares[len(r.middlewares) - 1]) && (callCount(opaque) == 2 ==> callFn(opaque, 1) == r.middlewares[0])
//@   ensures [outermost-served] len(r.middlewares) == 2 && callCount(opaque) == 2 ==> callArg(opaque, 1, 0) == callRes(opaque, 0, 0) && (callRes(opaque, 1, 0) != nil ==> callCount(ServeCOAP) == 1 && callArg(ServeCOAP, 0, 0) == callRes(opaque, 1, 0))
//@   loop 0:
//@     unroll 3

// ---- C17: registering and removing routes ---------------------------------------------------------------
//
// Every access to the route table and to the default handler happens while the router lock is held
// (`guarded` above: checked for every read and write in the functions under contract), and each of these
// operations is ONE atomic step on the table: Handle stores the new route under the filtered pattern and
// touches no other entry (a refused registration touches nothing), HandleRemove removes exactly that entry
// (or reports that it is not there and touches nothing), DefaultHandle only replaces the default handler,
// GetRoute returns a copy of the entry registered under the pattern at that instant, or nothing.
// (What a compiled pattern matches is package regexp's business: newRouteRegexp is assumed.)
//
//@ func newRouteRegexp(path string) (rr *routeRegexp, err error)
//@   trusted
//@   ensures err == nil ==> rr != nil
//
//@ func (*Router) Handle(pattern string, handler Handler) (err error)
//@   requires r != nil && r.m != nil && r.z != nil
//@   cs-pure mapUnchanged(r.z)
//@   atomic [refused-touches-nothing] err != nil ==> mapUnchanged(r.z)
//@   atomic [nil-handler-refused] handler == nil ==> err != nil
//@   atomic [stores-under-filtered-pattern] err == nil ==> present(r.z, keyId(ite(len(pattern) == 0, "/", pattern))) && r.z[keyId(ite(len(pattern) == 0, "/", pattern))].h == handler && r.z[keyId(ite(len(pattern) == 0, "/", pattern))].pattern == ite(len(pattern) == 0, "/", pattern) && r.z[keyId(ite(len(pattern) == 0, "/", pattern))].regexMatcher == callRes(newRouteRegexp, 0, 0)
//@   atomic [touches-only-that-entry] mapUnchanged(r.z) || mapIsStore(r.z, keyId(ite(len(pattern) == 0, "/", pattern)), r.z[keyId(ite(len(pattern) == 0, "/", pattern))])
//
//@ func (*Router) HandleRemove(pattern string) (err error)
//@   requires r != nil && r.m != nil
//@   cs-pure mapUnchanged(r.z)
//@   atomic [removes-exactly-that-entry] err == nil ==> old(present(r.z, keyId(ite(len(pattern) == 0, "/", pattern)))) && mapIsDelete(r.z, keyId(ite(len(pattern) == 0, "/", pattern)))
//@   atomic [absent-reported] err != nil ==> !old(present(r.z, keyId(ite(len(pattern) == 0, "/", pattern)))) && mapUnchanged(r.z)
//
//@ func (*Router) DefaultHandle(handler Handler)
//@   requires r != nil && r.m != nil
//@   cs-pure mapUnchanged(r.z)
//@   atomic [sets-default] r.defaultHandler == handler && mapUnchanged(r.z)
//
//@ func (*Router) GetRoute(pattern string) (rt *Route)
//@   requires r != nil && r.m != nil
//@   cs-pure mapUnchanged(r.z)
//@   atomic [read-only] mapUnchanged(r.z)
//@   atomic [found-iff-registered] (rt != nil) <==> present(r.z, keyId(ite(len(pattern) == 0, "/", pattern)))
//@   atomic [copy-of-the-entry] rt != nil ==> rt.h == r.z[keyId(ite(len(pattern) == 0, "/", pattern))].h && rt.regexMatcher == r.z[keyId(ite(len(pattern) == 0, "/", pattern))].regexMatcher && fresh(rt)
//
// GetRoutes hands out a snapshot of the table taken inside one critical section: a map of its own
// (never the guarded table itself) with exactly the registered patterns and, per pattern, the entry's
// handler and matcher; the table is not modified. (x/exp/maps.Clone by assumed contract.)
//
//@ func (*Router) GetRoutes() (rs map[string]Route)
//@   requires r != nil && r.m != nil
//@   cs-pure mapUnchanged(r.z)
//@   atomic [read-only] mapUnchanged(r.z)
//@   atomic [snapshot-keys] forall k int :: {present(rs, k)} present(rs, k) <==> present(r.z, k)
//@   atomic [snapshot-entries] forall k int :: {present(rs, k)} present(r.z, k) ==> rs[k].h == r.z[k].h && rs[k].regexMatcher == r.z[k].regexMatcher
//@   ensures [own-copy] fresh(rs)
//
// SetErrorHandler: the error callback is replaced under the router lock; routes and default handler stay.
//
//@ guarded Router.errors by Router.m
//
//@ func (*Router) SetErrorHandler(h func(error))
//@   requires r != nil && r.m != nil
//@   cs-pure mapUnchanged(r.z)
//@   atomic [sets-error-callback] r.errors == h && mapUnchanged(r.z) && r.defaultHandler == old(r.defaultHandler)
