//go:build verif

// Contracts for package message (checked by /verif/govc; comment-only, compiled only with -tags verif).
package message

// ---- option header layout (RFC 7252 section 3.1) -----------------------------------------------
//
// A delta or length x is written as a 4-bit nibble plus 0/1/2 extension bytes:
//   x in 0..12      nibble x,  no extension
//   x in 13..268    nibble 13, one byte  x-13
//   x in 269..65804 nibble 14, two bytes x-269 (big endian)
//
//@ spec nib(x int) int  = ite(x < 13, x, ite(x < 269, 13, 14))
//@ spec hs(x int) int   = ite(x < 13, 0, ite(x < 269, 1, 2))
//@ spec extv(x int) int = ite(x < 13, 0, ite(x < 269, x - 13, x - 269))
//@ spec extByte(x int, i int) int = ite(x < 269, x - 13, ite(i == 0, (x - 269) / 256, (x - 269) % 256))
//@ spec hdrByte(d int, l int, k int) int = ite(k == 0, 16*nib(d) + nib(l), ite(k < 1 + hs(d), extByte(d, k - 1), extByte(l, k - 1 - hs(d))))
//@ spec hdrAt(b []byte, p int, d int, l int) bool = forall k int :: {b[k]} p <= k && k < p + 1 + hs(d) + hs(l) ==> b[k] == hdrByte(d, l, k - p)
//@ spec optLen(d int, l int) int = 1 + hs(d) + hs(l) + l
//
//@ func extendOpt(opt int) (o int, ext int)
//@   ensures [nibble] o == nib(opt)
//@   ensures [ext] ext == extv(opt)
//
//@ func VerifyOptLen(optID OptionID, valueLen int) (r bool)
//@   ensures [registry] r <==> (valueLen >= CoapOptionDefs[optID].MinLen && valueLen <= CoapOptionDefs[optID].MaxLen)
//
//@ func marshalOptionHeaderExt(buf []byte, opt int, ext int) (n int, err error)
//@   requires 0 <= ext && ext <= 65535 && (opt == 13 ==> ext <= 255)
//@   modifies buf[0 : min(len(buf), ite(opt == 13, 1, ite(opt == 14, 2, 0)))]
//@   ensures [size] n == ite(opt == 13, 1, ite(opt == 14, 2, 0))
//@   ensures [fits-iff] (err == nil) <==> len(buf) >= n
//@   ensures [err-kind] err != nil ==> err == ErrTooSmall
//@   ensures [byte] err == nil && opt == 13 ==> buf[0] == ext
//@   ensures [word] err == nil && opt == 14 ==> buf[0] == ext / 256 && buf[1] == ext % 256
//
//@ func marshalOptionHeader(buf []byte, delta int, length int) (n int, err error)
//@   requires 0 <= delta && delta <= 65804 && 0 <= length && length <= 65804
//@   modifies buf[0 : min(len(buf), 1 + hs(delta) + hs(length))]
//@   ensures [size] n == 1 + hs(delta) + hs(length)
//@   ensures [fits-iff] (err == nil) <==> len(buf) >= n
//@   ensures [err-kind] err != nil ==> err == ErrTooSmall
//@   ensures [layout] err == nil ==> hdrAt(buf, 0, delta, length)
//
//@ func parseExtOpt(data []byte, opt int) (n int, v int, err error)
//@   requires 0 <= opt && opt <= 15
//@   ensures [size] err == nil ==> n == ite(opt == 13, 1, ite(opt == 14, 2, 0))
//@   ensures [accept-iff] (err == nil) <==> len(data) >= ite(opt == 13, 1, ite(opt == 14, 2, 0))
//@   ensures [err-kind] err != nil ==> err == ErrOptionTruncated
//@   ensures [value] err == nil ==> v == ite(opt == 13, 13 + data[0], ite(opt == 14, 269 + 256*data[0] + data[1], opt))
//
//@ func (Option) MarshalValue(buf []byte) (n int, err error)
//@   modifies buf[0 : min(len(buf), len(o.Value))]
//@   ensures [size] n == len(o.Value)
//@   ensures [fits-iff] (err == nil) <==> len(buf) >= len(o.Value)
//@   ensures [err-kind] err != nil ==> err == ErrTooSmall
//@   ensures [bytes] err == nil ==> bytesEqOld(buf[0:len(o.Value)], o.Value)
//
//@ func (*Option) UnmarshalValue(buf []byte) (n int, err error)
//@   requires o != nil
//@   modifies o.Value
//@   ensures [alias] err == nil && n == len(buf) && o.Value == buf
//
//@ func (Option) Marshal(buf []byte, previousID OptionID) (n int, err error)
//@   requires o.ID >= previousID && len(o.Value) <= 65804
//@   requires disjoint(buf, o.Value)
//@   modifies buf[0 : min(len(buf), optLen(o.ID - previousID, len(o.Value)))]
//@   ensures [size] n == optLen(o.ID - previousID, len(o.Value))
//@   ensures [fits-iff] (err == nil) <==> len(buf) >= n
//@   ensures [err-kind] err != nil ==> err == ErrTooSmall
//@   ensures [header] err == nil ==> hdrAt(buf, 0, o.ID - previousID, len(o.Value))
//@   ensures [value] err == nil ==> bytesEqOld(buf[n - len(o.Value) : n], o.Value)
//
// ---- option list encoding -------------------------------------------------------------------
//
//@ spec prevID(o Options, j int) int = ite(j <= 0, 0, o[j-1].ID)
//@ spec delta(o Options, j int) int = o[j].ID - prevID(o, j)
//@ spec optSize(o Options, j int) int = optLen(delta(o, j), len(o[j].Value))
//@ spec rec encLen(o Options, k int) int = ite(k <= 0, 0, encLen(o, k-1) + optSize(o, k-1))
//@ spec sortedOpts(o Options) bool = forall i int, j int :: {o[i].ID, o[j].ID} 0 <= i && i < j && j < len(o) ==> o[i].ID <= o[j].ID
//@ spec wfOptions(o Options) bool = sortedOpts(o) && len(o) <= 4294967296 && (forall j int :: {o[j].ID} 0 <= j && j < len(o) ==> len(o[j].Value) <= 65804)
//@ spec optAt(b []byte, p int, o Options, j int) bool = hdrAt(b, p, delta(o, j), len(o[j].Value)) && bytesEqOld(b[p + 1 + hs(delta(o, j)) + hs(len(o[j].Value)) : p + optSize(o, j)], o[j].Value)
//
//@ func (Options) Marshal(buf []byte) (n int, err error)
//@   requires wfOptions(options)
//@   requires forall j int :: {options[j].ID} 0 <= j && j < len(options) ==> disjoint(buf, options[j].Value)
//@   modifies buf[0 : len(buf)]
//@   ensures [size] n == encLen(options, len(options))
//@   ensures [fits-iff] (err == nil) <==> (buf != nil && n <= len(buf))
//@   ensures [err-kind] err != nil ==> err == ErrTooSmall
//@   ensures [layout] err == nil ==> forall j int :: {encLen(options, j)} 0 <= j && j < len(options) ==> 0 <= encLen(options, j) && encLen(options, j) + optSize(options, j) <= n && optAt(buf, encLen(options, j), options, j)
//@   loop 0:
//@     modifies buf[0 : len(buf)]
//@     invariant 0 <= #iter && #iter <= len(options)
//@     invariant length == encLen(options, #iter)
//@     invariant 0 <= length && length <= 65809 * #iter
//@     invariant previousID == prevID(options, #iter)
//@     invariant buf == nil || buf == old(buf)
//@     invariant buf != nil ==> length <= len(buf)
//@     invariant [bounds] forall j int :: {encLen(options, j)} 0 <= j && j < #iter ==> 0 <= encLen(options, j) && encLen(options, j) + optSize(options, j) <= length
//@     invariant [hdr] buf != nil ==> forall j int :: {encLen(options, j)} 0 <= j && j < #iter ==> hdrAt(old(buf), encLen(options, j), delta(options, j), len(options[j].Value))
//@     invariant [val] buf != nil ==> forall j int :: {encLen(options, j)} 0 <= j && j < #iter ==> bytesEqOld(old(buf)[encLen(options, j) + 1 + hs(delta(options, j)) + hs(len(options[j].Value)) : encLen(options, j) + optSize(options, j)], options[j].Value)
//@     invariant [too-small] buf == nil && old(buf) != nil ==> length > len(old(buf))
//@     decreases len(options) - #iter
