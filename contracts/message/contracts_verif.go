//go:build verif

// Contracts for package message (checked by /verif/govc; compiled only with -tags verif).
// Besides the //@ contract comments this file holds ghost lemma functions: Go functions with an
// empty effect whose contract is a lemma and whose loop invariant is the induction; they are
// verified like any other function and "called" where the lemma is needed.
package message

// ---- option header layout (RFC 7252 section 3.1) -----------------------------------------------
//
// A delta or length x is written as a 4-bit nibble plus 0/1/2 extension bytes:
//   x in 0..12      nibble x,  no extension
//   x in 13..268    nibble 13, one byte  x-13
//   x in 269..65804 nibble 14, two bytes x-269 (big endian)
//
//@ spec nib(x int) int  = ite(x < 13, x, ite(x < 269, 13, 14))
//@ spec hs(x int) int   = ite(x < 13, 0, ite(x < 269, 1, 2))
//@ spec extv(x int) int = ite(x < 13, 0, ite(x < 269, x - 13, x - 269))
//@ spec extByte(x int, i int) int = ite(x < 269, x - 13, ite(i == 0, (x - 269) / 256, (x - 269) % 256))
//@ spec hdrByte(d int, l int, k int) int = ite(k == 0, 16*nib(d) + nib(l), ite(k < 1 + hs(d), extByte(d, k - 1), extByte(l, k - 1 - hs(d))))
//@ spec hdrAt(b []byte, p int, d int, l int) bool = forall k int :: {b[k]} p <= k && k < p + 1 + hs(d) + hs(l) ==> b[k] == hdrByte(d, l, k - p)
//@ spec optLen(d int, l int) int = 1 + hs(d) + hs(l) + l
//
//@ func extendOpt(opt int) (o int, ext int)
//@   ensures [nibble] o == nib(opt)
//@   ensures [ext] ext == extv(opt)
//
//@ func VerifyOptLen(optID OptionID, valueLen int) (r bool)
//@   ensures [registry] r <==> (valueLen >= CoapOptionDefs[optID].MinLen && valueLen <= CoapOptionDefs[optID].MaxLen)
//
//@ func marshalOptionHeaderExt(buf []byte, opt int, ext int) (n int, err error)
//@   requires 0 <= ext && ext <= 65535 && (opt == 13 ==> ext <= 255)
//@   modifies buf[0 : min(len(buf), ite(opt == 13, 1, ite(opt == 14, 2, 0)))]
//@   ensures [size] n == ite(opt == 13, 1, ite(opt == 14, 2, 0))
//@   ensures [fits-iff] (err == nil) <==> len(buf) >= n
//@   ensures [err-kind] err != nil ==> err == ErrTooSmall
//@   ensures [byte] err == nil && opt == 13 ==> buf[0] == ext
//@   ensures [word] err == nil && opt == 14 ==> buf[0] == ext / 256 && buf[1] == ext % 256
//
//@ func marshalOptionHeader(buf []byte, delta int, length int) (n int, err error)
//@   requires 0 <= delta && delta <= 65804 && 0 <= length && length <= 65804
//@   modifies buf[0 : min(len(buf), 1 + hs(delta) + hs(length))]
//@   ensures [size] n == 1 + hs(delta) + hs(length)
//@   ensures [fits-iff] (err == nil) <==> len(buf) >= n
//@   ensures [err-kind] err != nil ==> err == ErrTooSmall
//@   ensures [layout] err == nil ==> hdrAt(buf, 0, delta, length)
//
//@ func parseExtOpt(data []byte, opt int) (n int, v int, err error)
//@   requires 0 <= opt && opt <= 15
//@   ensures [size] err == nil ==> n == ite(opt == 13, 1, ite(opt == 14, 2, 0))
//@   ensures [accept-iff] (err == nil) <==> len(data) >= ite(opt == 13, 1, ite(opt == 14, 2, 0))
//@   ensures [err-kind] err != nil ==> err == ErrOptionTruncated
//@   ensures [value] err == nil ==> v == ite(opt == 13, 13 + data[0], ite(opt == 14, 269 + 256*data[0] + data[1], opt))
//
//@ func (Option) MarshalValue(buf []byte) (n int, err error)
//@   modifies buf[0 : min(len(buf), len(o.Value))]
//@   ensures [size] n == len(o.Value)
//@   ensures [fits-iff] (err == nil) <==> len(buf) >= len(o.Value)
//@   ensures [err-kind] err != nil ==> err == ErrTooSmall
//@   ensures [bytes] err == nil ==> bytesEqOld(buf[0:len(o.Value)], o.Value)
//
//@ func (*Option) UnmarshalValue(buf []byte) (n int, err error)
//@   requires o != nil
//@   modifies o.Value
//@   ensures [alias] err == nil && n == len(buf) && o.Value == buf
//
//@ func (Option) Marshal(buf []byte, previousID OptionID) (n int, err error)
//@   requires o.ID >= previousID && len(o.Value) <= 65804
//@   requires disjoint(buf, o.Value)
//@   modifies buf[0 : min(len(buf), optLen(o.ID - previousID, len(o.Value)))]
//@   ensures [size] n == optLen(o.ID - previousID, len(o.Value))
//@   ensures [fits-iff] (err == nil) <==> len(buf) >= n
//@   ensures [err-kind] err != nil ==> err == ErrTooSmall
//@   ensures [header] err == nil ==> hdrAt(buf, 0, o.ID - previousID, len(o.Value))
//@   ensures [value] err == nil ==> bytesEqOld(buf[n - len(o.Value) : n], o.Value)
//
// ---- option list encoding -------------------------------------------------------------------
//
//@ spec prevID(o Options, j int) int = ite(j <= 0, 0, o[j-1].ID)
//@ spec delta(o Options, j int) int = o[j].ID - prevID(o, j)
//@ spec optSize(o Options, j int) int = optLen(delta(o, j), len(o[j].Value))
//@ spec rec encLen(o Options, k int) int = ite(k <= 0, 0, encLen(o, k-1) + optSize(o, k-1))
//@ spec sortedOpts(o Options) bool = forall i int, j int :: {o[i].ID, o[j].ID} 0 <= i && i < j && j < len(o) ==> o[i].ID <= o[j].ID
//@ spec wfOptions(o Options) bool = sortedOpts(o) && len(o) <= 4294967296 && (forall j int :: {o[j].ID} 0 <= j && j < len(o) ==> len(o[j].Value) <= 65804)
//@ spec optAt(b []byte, p int, o Options, j int) bool = hdrAt(b, p, delta(o, j), len(o[j].Value)) && bytesEqOld(b[p + 1 + hs(delta(o, j)) + hs(len(o[j].Value)) : p + optSize(o, j)], o[j].Value)
//
//@ spec optsAt(b []byte, o Options) bool = forall j int :: {encLen(o, j)} 0 <= j && j < len(o) ==> 0 <= encLen(o, j) && encLen(o, j) + optSize(o, j) <= encLen(o, len(o)) && optAt(b, encLen(o, j), o, j)
//@ spec valuesDisjoint(b []byte, o Options) bool = forall j int :: {o[j].ID} 0 <= j && j < len(o) ==> disjoint(b, o[j].Value)
//
//@ func (Options) Marshal(buf []byte) (n int, err error)
//@   requires wfOptions(options)
//@   requires valuesDisjoint(buf, options)
//@   modifies buf[0 : len(buf)]
//@   ensures [size] n == encLen(options, len(options))
//@   ensures [fits-iff] (err == nil) <==> (buf != nil && n <= len(buf))
//@   ensures [err-kind] err != nil ==> err == ErrTooSmall
//@   ensures [size-bound] 0 <= n && n <= 65809 * len(options)
//@   ensures [layout] err == nil ==> optsAt(buf, options)
//@   loop 0:
//@     modifies buf[0 : len(buf)]
//@     invariant 0 <= #iter && #iter <= len(options)
//@     invariant length == encLen(options, #iter)
//@     invariant 0 <= length && length <= 65809 * #iter
//@     invariant previousID == prevID(options, #iter)
//@     invariant buf == nil || buf == old(buf)
//@     invariant buf != nil ==> length <= len(buf)
//@     invariant [bounds] forall j int :: {encLen(options, j)} 0 <= j && j < #iter ==> 0 <= encLen(options, j) && encLen(options, j) + optSize(options, j) <= length
//@     invariant [hdr] buf != nil ==> forall j int :: {encLen(options, j)} 0 <= j && j < #iter ==> hdrAt(old(buf), encLen(options, j), delta(options, j), len(options[j].Value))
//@     invariant [val] buf != nil ==> forall j int :: {encLen(options, j)} 0 <= j && j < #iter ==> bytesEqOld(old(buf)[encLen(options, j) + 1 + hs(delta(options, j)) + hs(len(options[j].Value)) : encLen(options, j) + optSize(options, j)], options[j].Value)
//@     invariant [too-small] buf == nil && old(buf) != nil ==> length > len(old(buf))
//@     decreases len(options) - #iter
//
// ---- option list decoding: reference parser (RFC 7252 section 3.1) ------------------------------
//
// The reference parser is written over the raw byte string d and the index k of a raw option:
// rawStart(d,k) is the byte offset of raw option k, rawNum(d,k) the running option number after k
// options. Documented leniencies: options with registry-illegal length or unknown format are
// dropped, option number 0 is dropped.
//
//@ spec hsn(n int) int = ite(n == 13, 1, ite(n == 14, 2, 0))
//@ spec extVal(d []byte, q int, n int) int = ite(n < 13, n, ite(n == 13, 13 + d[q], 269 + 256*d[q] + d[q+1]))
//@ spec rawDelta(d []byte, p int) int = extVal(d, p + 1, d[p] / 16)
//@ spec rawLen(d []byte, p int) int = extVal(d, p + 1 + hsn(d[p] / 16), d[p] % 16)
//@ spec rawHdr(d []byte, p int) int = 1 + hsn(d[p] / 16) + hsn(d[p] % 16)
//@ spec rawSize(d []byte, p int) int = rawHdr(d, p) + rawLen(d, p)
//@ spec rec rawStart(d []byte, k int) int = ite(k <= 0, 0, rawStart(d, k-1) + rawSize(d, rawStart(d, k-1)))
//@ spec rec rawNum(d []byte, k int) int = ite(k <= 0, 0, rawNum(d, k-1) + rawDelta(d, rawStart(d, k-1)))
//@ spec terminal(d []byte, p int) bool = p >= len(d) || d[p] == 255
//@ spec rawOKAt(d []byte, p int, num int) bool = 0 <= p && p < len(d) && d[p] != 255 && d[p] / 16 != 15 && d[p] % 16 != 15 && p + rawHdr(d, p) <= len(d) && p + rawSize(d, p) <= len(d) && num + rawDelta(d, p) <= 65535
//@ spec rawOK(d []byte, k int) bool = rawOKAt(d, rawStart(d, k), rawNum(d, k))
//@ spec rawValPos(d []byte, k int) int = rawStart(d, k) + rawHdr(d, rawStart(d, k))
//@ spec kept(defs map[OptionID]OptionDef, id int, n int) bool = !present(defs, id) || (defs[id].ValueFormat != 0 && n >= defs[id].MinLen && n <= defs[id].MaxLen)
//@ spec keptRaw(d []byte, defs map[OptionID]OptionDef, k int) bool = rawNum(d, k+1) != 0 && kept(defs, rawNum(d, k+1), rawLen(d, rawStart(d, k)))
//@ spec rec nKept(d []byte, defs map[OptionID]OptionDef, k int) int = ite(k <= 0, 0, nKept(d, defs, k-1) + ite(keptRaw(d, defs, k-1), 1, 0))
//
//@ spec prefixOK(d []byte, K int) bool = K >= 0 && (forall j int :: {rawStart(d, j)} 0 <= j && j < K ==> rawOK(d, j))
//@ spec parsedOK(d []byte, K int) bool = prefixOK(d, K) && terminal(d, rawStart(d, K))
//@ spec consumedBy(d []byte, K int) int = rawStart(d, K) + ite(rawStart(d, K) < len(d), 1, 0)
//@ spec decodedOpts(o Options, base int, d []byte, defs map[OptionID]OptionDef, K int) bool = len(o) == base + nKept(d, defs, K) && (forall j int :: {rawStart(d, j)} 0 <= j && j < K && keptRaw(d, defs, j) ==> 0 <= nKept(d, defs, j) && nKept(d, defs, j) < nKept(d, defs, K) && o[base + nKept(d, defs, j)].ID == rawNum(d, j+1) && o[base + nKept(d, defs, j)].Value == d[rawValPos(d, j) : rawValPos(d, j) + rawLen(d, rawStart(d, j))])
//
//@ func (*Option) Unmarshal(data []byte, optionDefs map[OptionID]OptionDef, optionID OptionID) (n int, err error)
//@   requires o != nil && len(data) < 4294967296
//@   modifies o.ID, o.Value
//@   ensures [consumes-all] err == nil && n == len(data)
//@   ensures [kept] kept(optionDefs, optionID, len(data)) ==> o.ID == optionID && o.Value == data
//@   ensures [dropped] !kept(optionDefs, optionID, len(data)) ==> o.ID == old(o.ID) && o.Value == old(o.Value)
//
//@ func (*Options) Unmarshal(data []byte, optionDefs map[OptionID]OptionDef) (n int, err error)
//@   requires options != nil
//@   modifies *options, (*options)[len(*options) : cap(*options)]
//@   ensures [parsed] err == nil ==> parsedOK(data, #n0)
//@   ensures [consumed] err == nil ==> n == consumedBy(data, #n0) && n <= len(data)
//@   ensures [rejects] err != nil && !errors.Is(err, ErrOptionsTooSmall) ==> prefixOK(data, #n0) && !terminal(data, rawStart(data, #n0)) && !rawOK(data, #n0)
//@   ensures [too-small-prefix] errors.Is(err, ErrOptionsTooSmall) ==> prefixOK(data, #n0)
//@   ensures [too-small-ok] errors.Is(err, ErrOptionsTooSmall) ==> rawOK(data, #n0)
//@   ensures [too-small-cap] errors.Is(err, ErrOptionsTooSmall) ==> cap(old(*options)) == len(old(*options)) + nKept(data, optionDefs, #n0)
//@   ensures [too-small-full] errors.Is(err, ErrOptionsTooSmall) ==> len(*options) == cap(*options)
//@   ensures [n-err] err != nil ==> n == -1
//@   ensures [same-array] (*options)[0:0] == old(*options)[0:0] && cap(*options) == cap(old(*options))
//@   ensures [fields] err == nil ==> decodedOpts(*options, len(old(*options)), data, optionDefs, #n0)
//@   ensures [prefix-kept] forall i int :: {(*options)[i].ID} 0 <= i && i < len(old(*options)) ==> (*options)[i] == old((*options)[i])
//@   ensures [sorted-when-started-empty] len(old(*options)) == 0 ==> sortedOpts(*options)
//@   loop 0:
//@     modifies *options, (*options)[len(*options) : cap(*options)]
//@     invariant 0 <= #iter
//@     invariant processed == rawStart(old(data), #iter) && prev == rawNum(old(data), #iter)
//@     invariant 0 <= processed && processed <= len(old(data)) && 0 <= prev && prev <= 65535
//@     invariant data == old(data)[processed:]
//@     invariant forall j int :: {rawStart(old(data), j)} 0 <= j && j < #iter ==> rawOK(old(data), j)
//@     invariant (*options)[0:0] == old(*options)[0:0] && cap(*options) == cap(old(*options))
//@     invariant len(*options) == len(old(*options)) + nKept(old(data), optionDefs, #iter) && nKept(old(data), optionDefs, #iter) >= 0
//@     invariant forall j int :: {rawStart(old(data), j)} 0 <= j && j < #iter && keptRaw(old(data), optionDefs, j) ==> 0 <= nKept(old(data), optionDefs, j) && nKept(old(data), optionDefs, j) < nKept(old(data), optionDefs, #iter) && (*options)[len(old(*options)) + nKept(old(data), optionDefs, j)].ID == rawNum(old(data), j+1) && (*options)[len(old(*options)) + nKept(old(data), optionDefs, j)].Value == old(data)[rawValPos(old(data), j) : rawValPos(old(data), j) + rawLen(old(data), rawStart(old(data), j))]
//@     invariant forall i int :: {(*options)[i].ID} 0 <= i && i < len(old(*options)) ==> (*options)[i] == old((*options)[i])
//@     invariant [sorted-so-far] len(old(*options)) == 0 ==> sortedOpts(*options) && (forall i int :: {(*options)[i].ID} 0 <= i && i < len(*options) ==> (*options)[i].ID <= prev)
//@     decreases len(data)
//
//@ func ValidateMID(mid int32) (r bool)
//@   ensures [range] r <==> (0 <= mid && mid <= 65535)
//
//@ func ValidateType(typ Type) (r bool)
//@   ensures [wire-range] r <==> (0 <= typ && typ <= 3)
//@   known-finding [wire-range] D3: 4 <= typ && typ <= 255
//
// ---- lemma: the reference parser reads an encoding back -----------------------------------------
//
// If d carries the encoding of the option list L (layout predicates in the current state) followed
// by the end of data or the payload marker, then the reference parser finds exactly the options of
// L at the encoder's offsets. Proved by induction on the option index (the ghost loop below).
//
//@ spec optAtNow(b []byte, p int, o Options, j int) bool = hdrAt(b, p, delta(o, j), len(o[j].Value)) && bytesEq(b[p + 1 + hs(delta(o, j)) + hs(len(o[j].Value)) : p + optSize(o, j)], o[j].Value)
//@ spec optsAtNow(b []byte, o Options) bool = forall j int :: {encLen(o, j)} 0 <= j && j < len(o) ==> 0 <= encLen(o, j) && encLen(o, j) + optSize(o, j) <= encLen(o, len(o)) && optAtNow(b, encLen(o, j), o, j)
//@ spec legalOpts(o Options, defs map[OptionID]OptionDef) bool = forall j int :: {o[j].ID} 0 <= j && j < len(o) ==> o[j].ID != 0 && kept(defs, o[j].ID, len(o[j].Value))
//@ spec parsedAs(d []byte, o Options, defs map[OptionID]OptionDef, k int) bool = rawStart(d, k) == encLen(o, k) && rawNum(d, k) == prevID(o, k) && nKept(d, defs, k) == k
//@ spec parsedOpt(d []byte, o Options, defs map[OptionID]OptionDef, j int) bool = rawOK(d, j) && keptRaw(d, defs, j) && rawLen(d, rawStart(d, j)) == len(o[j].Value) && rawValPos(d, j) == encLen(o, j) + 1 + hs(delta(o, j)) + hs(len(o[j].Value))
//
//@ func VerifParseOfEncoding(d []byte, o Options, defs map[OptionID]OptionDef)
//@   requires wfOptions(o) && legalOpts(o, defs) && optsAtNow(d, o)
//@   requires 0 <= encLen(o, len(o)) && encLen(o, len(o)) <= len(d) && (len(d) == encLen(o, len(o)) || d[encLen(o, len(o))] == 255)
//@   modifies nothing
//@   ensures [starts] forall j int :: {rawStart(d, j)} 0 <= j && j <= len(o) ==> parsedAs(d, o, defs, j)
//@   ensures [options] forall j int :: {rawStart(d, j)} 0 <= j && j < len(o) ==> parsedOpt(d, o, defs, j)
//@   ensures [terminal] terminal(d, rawStart(d, len(o)))
//@   ensures [unique] forall K int :: {rawStart(d, K)} K >= 0 && prefixOK(d, K) ==> K <= len(o) && (terminal(d, rawStart(d, K)) ==> K == len(o)) && (rawOK(d, K) ==> K < len(o))
//@   loop 0:
//@     invariant 0 <= k && k <= len(o) && k == #iter
//@     invariant parsedAs(d, o, defs, k)
//@     invariant forall j int :: {rawStart(d, j)} 0 <= j && j < k ==> parsedAs(d, o, defs, j) && parsedOpt(d, o, defs, j)
//@     apply k < len(o) ==> VerifHeaderParse(d, encLen(o, k), delta(o, k), len(o[k].Value))
//@     assert [s1] k < len(o) ==> rawLen(d, rawStart(d, k)) == len(o[k].Value) && rawValPos(d, k) == encLen(o, k) + 1 + hs(delta(o, k)) + hs(len(o[k].Value))
//@     assert [s0] k < len(o) ==> rawNum(d, k + 1) == o[k].ID && o[k].ID != 0 && kept(defs, o[k].ID, len(o[k].Value))
//@     assert [s2] k < len(o) ==> rawOK(d, k)
//@     assert [s3] k < len(o) ==> keptRaw(d, defs, k)
//@     assert [step] k < len(o) ==> parsedOpt(d, o, defs, k)
//@     unfold rawStart(d, k), rawNum(d, k), nKept(d, defs, k), encLen(o, k), rawStart(d, k + 1), rawNum(d, k + 1), nKept(d, defs, k + 1), encLen(o, k + 1)
//@     decreases len(o) - k

// VerifParseOfEncoding is a ghost lemma (see the contract above); it has no effect.
func VerifParseOfEncoding(d []byte, o Options, defs map[OptionID]OptionDef) {
	for k := 0; k < len(o); k++ {
	}
}

// ---- lemma: one option header written by the encoder is read back by the reference parser -------
//
//@ func VerifHeaderParse(d []byte, p int, dl int, l int)
//@   requires 0 <= p && 0 <= dl && dl <= 65804 && 0 <= l && l <= 65804 && p + 1 + hs(dl) + hs(l) <= len(d)
//@   requires hdrAt(d, p, dl, l)
//@   modifies nothing
//@   ensures [delta] rawDelta(d, p) == dl
//@   ensures [length] rawLen(d, p) == l
//@   ensures [hdr] rawHdr(d, p) == 1 + hs(dl) + hs(l)
//@   ensures [nibbles] d[p] != 255 && d[p] / 16 != 15 && d[p] % 16 != 15

// VerifHeaderParse is a ghost lemma (see the contract above); it has no effect.
func VerifHeaderParse(d []byte, p int, dl int, l int) {}

// ---- C15: option list as a sorted multiset -------------------------------------------------------
//
// findPosition returns the open interval around the run of options with the given ID:
// minIdx = index of the last option with a smaller ID (-1 if none), maxIdx = index of the first
// option with a larger ID (-1 if none; 0 for the empty list).
//
//@ func (Options) findPosition(id OptionID) (minIdx int, maxIdx int)
//@   requires sortedOpts(options)
//@   ensures [empty] len(options) == 0 ==> minIdx == -1 && maxIdx == 0
//@   ensures [range] -1 <= minIdx && minIdx < max(len(options), 1) && -1 <= maxIdx && maxIdx < max(len(options), 1)
//@   ensures [smaller] forall i int :: {options[i].ID} 0 <= i && i < len(options) ==> ((i <= minIdx) <==> options[i].ID < id)
//@   ensures [larger] forall i int :: {options[i].ID} 0 <= i && i < len(options) ==> ((maxIdx >= 0 && i >= maxIdx) <==> options[i].ID > id)
//@   loop 0:
//@     invariant len(options) > 0 && 0 <= minIdx && minIdx <= pivot && pivot <= maxIdx && maxIdx <= len(options) && pivot < len(options)
//@     invariant (pivot == 0 && minIdx == 0) || options[minIdx].ID < id
//@     invariant maxIdx == len(options) || options[maxIdx].ID > id
//@     invariant (maxIdx - minIdx) / 2 >= 1 ==> pivot < maxIdx
//@     decreases 2 * (maxIdx - minIdx) + ite(pivot == minIdx, 1, 0)
//@   loop 1:
//@     invariant pivot <= maxIdx && maxIdx <= len(options)
//@     invariant forall i int :: {options[i].ID} pivot <= i && i < maxIdx ==> options[i].ID <= id
//@     invariant id == options[pivot].ID || pivot + 1 >= len(options) || options[pivot + 1].ID > id || options[pivot].ID > id
//@     decreases len(options) - maxIdx
//@   loop 2:
//@     invariant -1 <= minIdx && minIdx <= pivot
//@     invariant forall i int :: {options[i].ID} minIdx < i && i <= pivot ==> options[i].ID >= id
//@     decreases minIdx + 1
//
// Find: [first, last) is exactly the run of options with that ID.
//
//@ func (Options) Find(id OptionID) (first int, last int, err error)
//@   requires sortedOpts(options)
//@   ensures [found] err == nil ==> 0 <= first && first < last && last <= len(options) && options[first].ID == id
//@   ensures [not-found] err != nil ==> forall i int :: {options[i].ID} 0 <= i && i < len(options) ==> options[i].ID != id
//@   ensures [err-kind] err != nil ==> err == ErrOptionNotFound && first == -1 && last == -1
//@   ensures [run] err == nil ==> 0 <= first && first < last && last <= len(options) && (forall i int :: {options[i].ID} 0 <= i && i < len(options) ==> ((first <= i && i < last) <==> options[i].ID == id))
//
// Remove: the options with that ID disappear, everything else keeps its order (in place).
//
//@ spec countLess(o Options, id int, n int) bool = 0 <= n && n <= len(o) && (forall i int :: {o[i].ID} 0 <= i && i < len(o) ==> ((i < n) <==> o[i].ID < id))
//
//@ func (Options) Remove(id OptionID) (r Options)
//@   ghost gbuf []byte
//@   requires sortedOpts(options)
//@   modifies options[0 : len(options)]
//@   requires [ghost] forall j int :: {options[j].ID} 0 <= j && j < len(options) ==> disjoint(options[j].Value, gbuf)
//@   ensures [clear-kept] forall j int :: {r[j].ID} 0 <= j && j < len(r) ==> disjoint(r[j].Value, gbuf)
//@   ensures [same-array] r[0:0] == options[0:0] && cap(r) == cap(options) && len(r) <= len(options)
//@   witness f = idxPre
//@   witness l = idxPost
//@   ensures [absent] (forall i int :: {options[i].ID} 0 <= i && i < len(options) ==> old(options[i].ID) != id) ==> r == options && (forall i int :: {r[i].ID} 0 <= i && i < len(options) ==> r[i] == old(options[i]))
//@   ensures [model] (exists i int :: {options[i].ID} 0 <= i && i < len(options) && old(options[i].ID) == id) ==> 0 <= f && f < l && l <= len(options) && len(r) == len(options) - (l - f) && (forall i int :: {old(options[i].ID)} 0 <= i && i < len(options) ==> ((f <= i && i < l) <==> old(options[i].ID) == id)) && (forall i int :: {r[i].ID} 0 <= i && i < f ==> r[i] == old(options[i])) && (forall i int :: {r[i].ID} f <= i && i < len(r) ==> r[i] == old(options[i + (l - f)]))
//@   loop 0:
//@     modifies options[0 : len(options)]
//@     invariant idxPost <= i && i <= len(options) && updateIdx == idxPre + (i - idxPost)
//@     invariant forall k int :: {options[k].ID} 0 <= k && k < idxPre ==> options[k] == old(options[k])
//@     invariant forall k int :: {options[k].ID} idxPre <= k && k < updateIdx ==> options[k] == old(options[k + (idxPost - idxPre)])
//@     invariant forall k int :: {options[k].ID} updateIdx <= k && k < len(options) ==> options[k] == old(options[k])
//@     invariant [clear-kept] forall k int :: {options[k].ID} 0 <= k && k < len(options) ==> disjoint(options[k].Value, gbuf)
//@     decreases len(options) - i
//
// Add: the new option goes after every option whose ID is <= its ID (insertion order among equals);
// everything else keeps its order. In place when there is spare capacity, otherwise in a fresh array.
//
//@ func (Options) Add(opt Option) (r Options)
//@   requires sortedOpts(options) && len(options) < 281474976710655
//@   modifies options[0 : cap(options)]
//@   witness p = idxPost
//@   ensures [len] len(r) == len(options) + 1 && 0 <= p && p <= len(options)
//@   ensures [array] (len(options) < cap(options) ==> r[0:0] == options[0:0] && cap(r) == cap(options)) && (len(options) == cap(options) ==> fresh(r))
//@   ensures [position] forall i int :: {old(options[i].ID)} 0 <= i && i < len(options) ==> ((i < p) <==> old(options[i].ID) <= opt.ID)
//@   ensures [position-next] p < len(options) ==> old(options[p].ID) > opt.ID
//@   ensures [position-prev] p > 0 ==> old(options[p - 1].ID) <= opt.ID
//@   ensures [before] forall i int :: {r[i].ID} 0 <= i && i < p ==> r[i] == old(options[i])
//@   ensures [inserted] r[p] == opt
//@   ensures [after] forall i int :: {r[i].ID} p < i && i < len(r) ==> r[i] == old(options[i - 1])
//@   ensures [sorted] sortedOpts(r)
//@   loop 0:
//@     modifies options[0 : len(options)]
//@     invariant 0 <= idxPost && idxPost <= i && i == len(options) - 1 - #iter && len(options) == len(old(options)) + 1
//@     invariant forall k int :: {options[k].ID} 0 <= k && k <= i && k < len(old(options)) ==> options[k] == old(options[k])
//@     invariant forall k int :: {options[k].ID} i < k && k < len(options) ==> options[k] == old(options[k - 1])
//@     decreases i
//
// Set: all options with that ID are replaced by the single new one, in the position of the run;
// smaller and larger options keep their order.
//
//@ func (Options) Set(opt Option) (r Options)
//@   requires sortedOpts(options) && len(options) < 281474976710655
//@   modifies options[0 : cap(options)]
//@   witness f = idxPre + 1
//@   witness l = ite(idxPost < 0, len(options), idxPost)
//@   ensures [run-bounds] 0 <= f && f <= l && l <= len(options)
//@   ensures [run-smaller] forall i int :: {old(options[i].ID)} 0 <= i && i < len(options) ==> ((i < f) <==> old(options[i].ID) < opt.ID)
//@   ensures [run-larger] forall i int :: {old(options[i].ID)} 0 <= i && i < len(options) ==> ((i >= l) <==> old(options[i].ID) > opt.ID)
//@   ensures [len] len(r) == f + 1 + (len(options) - l)
//@   ensures [before] forall i int :: {r[i].ID} 0 <= i && i < f ==> r[i] == old(options[i])
//@   ensures [set] r[f] == opt
//@   ensures [after] forall i int :: {r[i].ID} f < i && i < len(r) ==> r[i] == old(options[i - f - 1 + l])
//@   ensures [array] (len(r) <= cap(options) ==> r[0:0] == options[0:0]) || fresh(r)
//@   ensures [sorted] sortedOpts(r)
//@   loop 0:
//@     modifies options[0 : len(options)]
//@     invariant updateFrom <= i && i == optsLength - #iter && updateIdx == updateTo + #iter && len(options) == optsLength + 1 && optsLength == len(old(options))
//@     invariant forall k int :: {options[k].ID} 0 <= k && k <= i && k < optsLength ==> options[k] == old(options[k])
//@     invariant forall k int :: {options[k].ID} i < k && k <= optsLength ==> options[k] == old(options[k - 1])
//@     decreases i
//@   loop 1:
//@     modifies options[0 : len(options)]
//@     invariant updateFrom <= i && i <= optsLength && i == updateFrom + #iter && updateIdx == updateTo + #iter && len(options) == optsLength + 1 && optsLength == len(old(options)) && updateTo <= updateFrom
//@     invariant forall k int :: {options[k].ID} 0 <= k && k < updateTo ==> options[k] == old(options[k])
//@     invariant forall k int :: {options[k].ID} updateTo <= k && k < updateIdx ==> options[k] == old(options[k - updateTo + updateFrom])
//@     invariant forall k int :: {options[k].ID} updateIdx <= k && k < optsLength ==> options[k] == old(options[k])
//@     decreases optsLength - i
//
// ---- uint option values: minimal-length big-endian ------------------------------------------------
//
//@ spec u32Len(v int) int = ite(v == 0, 0, ite(v <= 255, 1, ite(v <= 65535, 2, ite(v <= 16777215, 3, 4))))
//@ spec beU32(b []byte, n int) int = ite(n == 0, 0, ite(n == 1, b[0], ite(n == 2, 256*b[0] + b[1], ite(n == 3, 65536*b[0] + 256*b[1] + b[2], 16777216*b[0] + 65536*b[1] + 256*b[2] + b[3]))))
//
//@ func EncodeUint32(buf []byte, value uint32) (n int, err error)
//@   modifies buf[0 : min(len(buf), u32Len(value))]
//@   ensures [size] n == u32Len(value)
//@   ensures [fits-iff] (err == nil) <==> len(buf) >= n
//@   ensures [err-kind] err != nil ==> err == ErrTooSmall
//@   ensures [value] err == nil ==> beU32(buf, n) == value
//
//@ func DecodeUint32(buf []byte) (v uint32, n int, err error)
//@   ensures [all] err == nil && n == min(len(buf), 4) && v == beU32(buf, n)
//
// ---- getters: answers consistent with the sorted-multiset view ---------------------------------
//
//@ func (Options) HasOption(id OptionID) (r bool)
//@   requires sortedOpts(options)
//@   ensures [iff] r <==> (exists i int :: {options[i].ID} 0 <= i && i < len(options) && options[i].ID == id)
//
//@ func (Options) GetBytes(id OptionID) (r []byte, err error)
//@   requires sortedOpts(options)
//@   witness p = firstIdx
//@   ensures [found] err == nil ==> 0 <= p && p < len(options) && options[p].ID == id && (p == 0 || options[p - 1].ID < id) && r == options[p].Value
//@   ensures [not-found] err != nil ==> err == ErrOptionNotFound && r == nil && (forall i int :: {options[i].ID} 0 <= i && i < len(options) ==> options[i].ID != id)
//
//@ func (Options) GetUint32(id OptionID) (v uint32, err error)
//@   requires sortedOpts(options)
//@   witness p = firstIdx
//@   ensures [found] err == nil ==> 0 <= p && p < len(options) && options[p].ID == id && (p == 0 || options[p - 1].ID < id) && v == beU32(options[p].Value, min(len(options[p].Value), 4))
//@   ensures [not-found] err != nil ==> err == ErrOptionNotFound && v == 0 && (forall i int :: {options[i].ID} 0 <= i && i < len(options) ==> options[i].ID != id)
//
// GetStrings: as GetBytess, the values converted to strings (their lengths are specified, their text is
// the conversion of the option value).
//
//@ func (Options) GetStrings(id OptionID, r []string) (n int, err error)
//@   requires sortedOpts(options)
//@   modifies r[0 : len(r)]
//@   witness f = firstIdx
//@   witness l = lastIdx
//@   ensures [not-found] err == ErrOptionNotFound ==> n == 0 && (forall i int :: {options[i].ID} 0 <= i && i < len(options) ==> options[i].ID != id)
//@   ensures [too-small] err == ErrTooSmall ==> n == l - f && len(r) < n && 0 <= f && f < l && l <= len(options)
//@   ensures [err-kind] err != nil ==> err == ErrOptionNotFound || err == ErrTooSmall
//@   ensures [count] err == nil ==> n == l - f && 0 <= f && f < l && l <= len(options) && n <= len(r) && (forall i int :: {options[i].ID} 0 <= i && i < len(options) ==> ((f <= i && i < l) <==> options[i].ID == id))
//@   ensures [lengths] err == nil ==> (forall k int :: {len(r[k])} 0 <= k && k < n ==> len(r[k]) == len(options[f + k].Value))
//@   loop 0:
//@     modifies r[0 : len(r)]
//@     invariant firstIdx <= i && i <= lastIdx && idx == i - firstIdx && i == firstIdx + #iter
//@     invariant forall k int :: {len(r[k])} 0 <= k && k < idx ==> len(r[k]) == len(options[firstIdx + k].Value)
//@     decreases lastIdx - i
//
//@ func (Options) GetBytess(id OptionID, r [][]byte) (n int, err error)
//@   requires sortedOpts(options)
//@   modifies r[0 : len(r)]
//@   witness f = firstIdx
//@   witness l = lastIdx
//@   ensures [not-found] err == ErrOptionNotFound ==> n == 0 && (forall i int :: {options[i].ID} 0 <= i && i < len(options) ==> options[i].ID != id)
//@   ensures [too-small] err == ErrTooSmall ==> n == l - f && len(r) < n && 0 <= f && f < l && l <= len(options)
//@   ensures [err-kind] err != nil ==> err == ErrOptionNotFound || err == ErrTooSmall
//@   ensures [values] err == nil ==> n == l - f && 0 <= f && f < l && l <= len(options) && (forall i int :: {options[i].ID} 0 <= i && i < len(options) ==> ((f <= i && i < l) <==> options[i].ID == id)) && (forall k int :: {r[k]} 0 <= k && k < n ==> r[k] == options[f + k].Value)
//@   loop 0:
//@     modifies r[0 : len(r)]
//@     invariant firstIdx <= i && i <= lastIdx && idx == i - firstIdx && i == firstIdx + #iter
//@     invariant forall k int :: {r[k]} 0 <= k && k < idx ==> r[k] == options[firstIdx + k].Value
//@     decreases lastIdx - i
//
//@ func (Options) GetUint32s(id OptionID, r []uint32) (n int, err error)
//@   requires sortedOpts(options)
//@   modifies r[0 : len(r)]
//@   witness f = firstIdx
//@   witness l = lastIdx
//@   ensures [not-found] err == ErrOptionNotFound ==> n == 0 && (forall i int :: {options[i].ID} 0 <= i && i < len(options) ==> options[i].ID != id)
//@   ensures [too-small] err == ErrTooSmall ==> n == l - f && len(r) < n
//@   ensures [err-kind] err != nil ==> err == ErrOptionNotFound || err == ErrTooSmall
//@   ensures [values] err == nil ==> n == l - f && 0 <= f && f < l && l <= len(options) && (forall k int :: {r[k]} 0 <= k && k < n ==> r[k] == beU32(options[f + k].Value, min(len(options[f + k].Value), 4)))
//@   loop 0:
//@     modifies r[0 : len(r)]
//@     invariant firstIdx <= i && i <= lastIdx && idx == i - firstIdx && i == firstIdx + #iter
//@     invariant forall k int :: {r[k]} 0 <= k && k < idx ==> r[k] == beU32(options[firstIdx + k].Value, min(len(options[firstIdx + k].Value), 4))
//@     decreases lastIdx - i
//
// ---- typed setters: the value is copied into the caller's buffer, the list edited by Set/Add ------
//
//@ func (Options) SetBytes(buf []byte, id OptionID, data []byte) (r Options, n int, err error)
//@   requires sortedOpts(options) && len(options) < 281474976710655
//@   modifies buf[0 : min(len(buf), len(data))], options[0 : cap(options)]
//@   witness f = Set.f
//@   witness l = Set.l
//@   ensures [too-small] len(buf) < len(data) ==> err == ErrTooSmall && n == len(data) && r == options
//@   ensures [too-long] len(buf) >= len(data) && id == 11 && len(data) > 255 ==> err == ErrInvalidValueLength && n == -1 && r == options
//@   ensures [unchanged-on-error] err != nil ==> (forall i int :: {r[i].ID} 0 <= i && i < len(options) ==> r[i] == old(options[i])) && bytesEqOld(buf, buf)
//@   ensures [ok] len(buf) >= len(data) && !(id == 11 && len(data) > 255) ==> err == nil && n == len(data) && bytesEqOld(buf[0 : n], data)
//@   ensures [run-bounds] err == nil ==> 0 <= f && f <= l && l <= len(options)
//@   ensures [run-smaller] err == nil ==> forall i int :: {old(options[i].ID)} 0 <= i && i < len(options) ==> ((i < f) <==> old(options[i].ID) < id)
//@   ensures [run-larger] err == nil ==> forall i int :: {old(options[i].ID)} 0 <= i && i < len(options) ==> ((i >= l) <==> old(options[i].ID) > id)
//@   ensures [len] err == nil ==> len(r) == f + 1 + (len(options) - l)
//@   ensures [before] err == nil ==> forall i int :: {r[i].ID} 0 <= i && i < f ==> r[i] == old(options[i])
//@   ensures [set] err == nil ==> r[f].ID == id && r[f].Value == buf[0 : len(data)]
//@   ensures [after] err == nil ==> forall i int :: {r[i].ID} f < i && i < len(r) ==> r[i] == old(options[i - f - 1 + l])
//
//@ func (Options) AddBytes(buf []byte, id OptionID, data []byte) (r Options, n int, err error)
//@   requires sortedOpts(options) && len(options) < 281474976710655
//@   modifies buf[0 : min(len(buf), len(data))], options[0 : cap(options)]
//@   witness p = Add.p
//@   ensures [too-small] len(buf) < len(data) ==> err == ErrTooSmall && n == len(data) && r == options
//@   ensures [too-long] len(buf) >= len(data) && id == 11 && len(data) > 255 ==> err == ErrInvalidValueLength && n == -1 && r == options
//@   ensures [unchanged-on-error] err != nil ==> (forall i int :: {r[i].ID} 0 <= i && i < len(options) ==> r[i] == old(options[i])) && bytesEqOld(buf, buf)
//@   ensures [ok] len(buf) >= len(data) && !(id == 11 && len(data) > 255) ==> err == nil && n == len(data) && bytesEqOld(buf[0 : n], data)
//@   ensures [len] err == nil ==> len(r) == len(options) + 1 && 0 <= p && p <= len(options)
//@   ensures [position] err == nil ==> forall i int :: {old(options[i].ID)} 0 <= i && i < len(options) ==> ((i < p) <==> old(options[i].ID) <= id)
//@   ensures [before] err == nil ==> forall i int :: {r[i].ID} 0 <= i && i < p ==> r[i] == old(options[i])
//@   ensures [inserted] err == nil ==> r[p].ID == id && r[p].Value == buf[0 : len(data)]
//@   ensures [after] err == nil ==> forall i int :: {r[i].ID} p < i && i < len(r) ==> r[i] == old(options[i - 1])
//
//@ func (Options) SetUint32(buf []byte, id OptionID, value uint32) (r Options, n int, err error)
//@   requires sortedOpts(options) && len(options) < 281474976710655
//@   modifies buf[0 : min(len(buf), u32Len(value))], options[0 : cap(options)]
//@   witness f = Set.f
//@   witness l = Set.l
//@   ensures [too-small] len(buf) < u32Len(value) ==> err == ErrTooSmall && n == u32Len(value) && r == options && (forall i int :: {r[i].ID} 0 <= i && i < len(options) ==> r[i] == old(options[i]))
//@   ensures [ok] len(buf) >= u32Len(value) ==> err == nil && n == u32Len(value) && beU32(buf, n) == value
//@   ensures [run-bounds] err == nil ==> 0 <= f && f <= l && l <= len(options)
//@   ensures [run-smaller] err == nil ==> forall i int :: {old(options[i].ID)} 0 <= i && i < len(options) ==> ((i < f) <==> old(options[i].ID) < id)
//@   ensures [run-larger] err == nil ==> forall i int :: {old(options[i].ID)} 0 <= i && i < len(options) ==> ((i >= l) <==> old(options[i].ID) > id)
//@   ensures [len] err == nil ==> len(r) == f + 1 + (len(options) - l)
//@   ensures [before] err == nil ==> forall i int :: {r[i].ID} 0 <= i && i < f ==> r[i] == old(options[i])
//@   ensures [set] err == nil ==> r[f].ID == id && r[f].Value == buf[0 : n]
//@   ensures [after] err == nil ==> forall i int :: {r[i].ID} f < i && i < len(r) ==> r[i] == old(options[i - f - 1 + l])
//
//@ func (Options) AddUint32(buf []byte, id OptionID, value uint32) (r Options, n int, err error)
//@   requires sortedOpts(options) && len(options) < 281474976710655
//@   modifies buf[0 : min(len(buf), u32Len(value))], options[0 : cap(options)]
//@   witness p = Add.p
//@   ensures [too-small] len(buf) < u32Len(value) ==> err == ErrTooSmall && n == u32Len(value) && r == options && (forall i int :: {r[i].ID} 0 <= i && i < len(options) ==> r[i] == old(options[i]))
//@   ensures [ok] len(buf) >= u32Len(value) ==> err == nil && n == u32Len(value) && beU32(buf, n) == value
//@   ensures [len] err == nil ==> len(r) == len(options) + 1 && 0 <= p && p <= len(options)
//@   ensures [position] err == nil ==> forall i int :: {old(options[i].ID)} 0 <= i && i < len(options) ==> ((i < p) <==> old(options[i].ID) <= id)
//@   ensures [before] err == nil ==> forall i int :: {r[i].ID} 0 <= i && i < p ==> r[i] == old(options[i])
//@   ensures [inserted] err == nil ==> r[p].ID == id && r[p].Value == buf[0 : n]
//@   ensures [after] err == nil ==> forall i int :: {r[i].ID} p < i && i < len(r) ==> r[i] == old(options[i - 1])
//
// ResetOptionsTo: the list becomes a copy of `in` (values copied back to back into buf).
// On ErrTooSmall nothing may have changed (error atomicity) and n is the total size needed.
//
//@ spec rec sumLens(o Options, k int) int = ite(k <= 0, 0, sumLens(o, k-1) + len(o[k-1].Value))
//
//@ func (Options) ResetOptionsTo(buf []byte, in Options) (r Options, n int, err error)
//@   requires sortedOpts(in) && len(in) <= 16384 && valuesDisjoint(buf, in) && distinctObjects(in, options)
//@   modifies buf[0 : len(buf)], options[0 : cap(options)]
//@   ensures [size] n == sumLens(in, len(in)) && 0 <= n
//@   ensures [fits-iff] (err == nil) <==> sumLens(in, len(in)) <= len(buf)
//@   ensures [err-kind] err != nil ==> err == ErrTooSmall && r == options
//@   ensures [error-atomic] err != nil ==> (forall i int :: {options[i].ID} 0 <= i && i < len(options) ==> options[i] == old(options[i])) && bytesEqOld(buf, buf)
//@   ensures [copied-ids] err == nil ==> len(r) == len(in) && (forall j int :: {r[j].ID} 0 <= j && j < len(in) ==> r[j].ID == in[j].ID)
//@   ensures [copied-slices] err == nil ==> (forall j int :: {r[j].ID} 0 <= j && j < len(in) ==> r[j].Value == buf[sumLens(in, j) : sumLens(in, j + 1)])
//@   ensures [copied-lens] err == nil ==> (forall j int :: {r[j].ID} 0 <= j && j < len(in) ==> len(r[j].Value) == len(in[j].Value))
//@   ensures [backing] err == nil ==> (r[0:0] == options[0:0] && cap(r) == cap(options)) || fresh(r)
//@   ensures [prefix-sums] forall j int :: {sumLens(in, j)} 0 <= j && j <= len(in) ==> 0 <= sumLens(in, j) && sumLens(in, j) <= n
//   (not claimed: that the bytes of every value are copied; the invariant needed for it does not discharge robustly)
//@   loop 0:
//@     invariant 0 <= #iter && #iter <= len(in) && needed == sumLens(in, #iter) && 0 <= needed && needed <= 281474976710656 * #iter
//@     invariant forall j int :: {sumLens(in, j)} 0 <= j && j <= #iter ==> 0 <= sumLens(in, j) && sumLens(in, j) <= needed
//@     decreases len(in) - #iter
//@   loop 1:
//@     modifies buf[0 : len(buf)], options[0 : cap(options)]
//@     invariant 0 <= #iter && #iter <= len(in) && len(opts) == #iter && used == sumLens(in, #iter) && 0 <= used && used <= 281474976710656 * #iter
//@     invariant buf == old(buf)[used : ] && used <= len(old(buf)) && needed == sumLens(in, len(in)) && needed <= len(old(buf))
//@     invariant (opts[0:0] == options[0:0] && cap(opts) == cap(options)) || fresh(opts)
//@     invariant forall j int :: {sumLens(in, j)} 0 <= j && j <= len(in) ==> 0 <= sumLens(in, j) && sumLens(in, j) <= needed
//@     invariant [ids] forall j int :: {opts[j].ID} 0 <= j && j < #iter ==> opts[j].ID == in[j].ID
//@     invariant [slices] forall j int :: {opts[j].ID} 0 <= j && j < #iter ==> opts[j].Value == old(buf)[sumLens(in, j) : sumLens(in, j + 1)] && 0 <= sumLens(in, j) && sumLens(in, j + 1) <= used
//@     invariant [lens] forall j int :: {opts[j].ID} 0 <= j && j < #iter ==> len(opts[j].Value) == len(in[j].Value)
//@     unfold sumLens(in, #iter + 1)
//@     decreases len(in) - #iter

// ---- lemma: whatever the decoder produced from an encoding is the encoded list -------------------
//
// For every K that the reference parser accepts on d (parsedOK) with output r (decodedOpts), K is the
// number of encoded options and r equals o element by element. Universally quantified over K so that
// callers can use it for the (existential) K of the decoder's contract.
//
//@ func VerifDecodedIsEncoded(d []byte, o Options, r Options, defs map[OptionID]OptionDef)
//@   requires wfOptions(o) && legalOpts(o, defs) && optsAtNow(d, o)
//@   requires 0 <= encLen(o, len(o)) && encLen(o, len(o)) <= len(d) && (len(d) == encLen(o, len(o)) || d[encLen(o, len(o))] == 255)
//@   modifies nothing
//@   ensures [unique] forall K int :: {rawStart(d, K)} K >= 0 && prefixOK(d, K) ==> K <= len(o) && (terminal(d, rawStart(d, K)) ==> K == len(o)) && (rawOK(d, K) ==> K < len(o) && nKept(d, defs, K) == K)
//@   ensures [accepts] forall K int :: {rawStart(d, K)} K >= 0 && prefixOK(d, K) ==> (K < len(o) ==> rawOK(d, K)) && (K == len(o) ==> terminal(d, rawStart(d, K)))
//@   ensures [consumed] forall K int :: {rawStart(d, K)} parsedOK(d, K) ==> K == len(o) && rawStart(d, K) == encLen(o, len(o))
//@   ensures [count] forall K int :: {rawStart(d, K)} parsedOK(d, K) && decodedOpts(r, 0, d, defs, K) ==> len(r) == len(o)
//@   ensures [ids] forall K int :: {rawStart(d, K)} parsedOK(d, K) && decodedOpts(r, 0, d, defs, K) ==> (forall j int :: {r[j].ID} 0 <= j && j < len(o) ==> rawStart(d, j) == encLen(o, j) && rawStart(d, j + 1) == encLen(o, j + 1) && r[j].ID == o[j].ID)
//@   ensures [slices] forall K int :: {rawStart(d, K)} parsedOK(d, K) && decodedOpts(r, 0, d, defs, K) ==> (forall j int :: {r[j].ID} 0 <= j && j < len(o) ==> rawStart(d, j) == encLen(o, j) && r[j].Value == d[encLen(o, j) + 1 + hs(delta(o, j)) + hs(len(o[j].Value)) : encLen(o, j) + optSize(o, j)])
//@   ensures [values] forall K int :: {rawStart(d, K)} parsedOK(d, K) && decodedOpts(r, 0, d, defs, K) ==> (forall j int :: {r[j].ID} 0 <= j && j < len(o) ==> rawStart(d, j) == encLen(o, j) && bytesEq(r[j].Value, o[j].Value))

// VerifDecodedIsEncoded is a ghost lemma (see the contract above); it has no effect.
func VerifDecodedIsEncoded(d []byte, o Options, r Options, defs map[OptionID]OptionDef) {
	VerifParseOfEncoding(d, o, defs)
}

// Assumed contracts (CRC-64 of the token bytes - for tokens of at most 8 bytes an uninterpreted function of
// the length and the bytes, so two copies of one token hash alike; for longer tokens a function of the
// slice; deep copy of an option list):
//
//@ spec hashOfBytes(n int, b0 int, b1 int, b2 int, b3 int, b4 int, b5 int, b6 int, b7 int) int
//@ spec longTokenHashOf(t Token) int
//@ spec tokenHashOf(t Token) int = ite(len(t) <= 8, hashOfBytes(len(t), ite(len(t) > 0, t[0], 0), ite(len(t) > 1, t[1], 0), ite(len(t) > 2, t[2], 0), ite(len(t) > 3, t[3], 0), ite(len(t) > 4, t[4], 0), ite(len(t) > 5, t[5], 0), ite(len(t) > 6, t[6], 0), ite(len(t) > 7, t[7], 0)), longTokenHashOf(t))
//
//@ func (Token) Hash() (h uint64)
//@   trusted
//@   ensures h == tokenHashOf(t)
//
//@ func (Options) Clone() (c Options, err error)
//@   trusted
//
//@ func (Options) Path() (p string, err error)
//@   trusted

// ---- C15: setting a path is all-or-nothing until the first segment is written -------------------------
//
// setPath refuses (empty segment too long, buffer too small) BEFORE it touches the option list: on such
// an error the caller gets back exactly the list it passed in, unchanged (pool.Message retries with a
// bigger buffer on ErrTooSmall and must find its options as they were).
//
//@ func GetPathBufferSize(path string) (size int, err error)
//@   trusted
//@   ensures err == nil ==> 0 <= size
//
//@ func (Options) AddString(buf []byte, id OptionID, str string) (r Options, n int, err error)
//@   trusted
//@   modifies options[0 : cap(options)], buf[0 : len(buf)]
//@   ensures (r[0:0] == options[0:0] && cap(r) == cap(options)) || fresh(r)
//@   ensures err == nil ==> 0 <= n && n <= len(buf)
//
//@ func setPath(options Options, optionID OptionID, buf []byte, path string) (r Options, n int, err error)
//@   requires sortedOpts(options) && len(path) < 1099511627776
//@   modifies options[0 : cap(options)], buf[0 : len(buf)]
//@   ensures [empty-path-noop] len(path) == 0 ==> r == options && n == 0 && err == nil && (forall i int :: {r[i].ID} 0 <= i && i < len(options) ==> r[i] == old(options[i]))
//@   ensures [refused-before-anything-changes] err != nil && notCalled(AddString) ==> r == options && (forall i int :: {r[i].ID} 0 <= i && i < len(options) ==> r[i] == old(options[i]))
//@   loop 0:
//@     modifies options[0 : cap(options)], buf[0 : len(buf)]
//@     invariant [bounds] 0 <= start && 0 <= encoded && encoded <= len(buf)
//@     invariant [own-list] (o[0:0] == options[0:0] && cap(o) == cap(options)) || fresh(o)
