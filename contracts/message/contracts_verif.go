//go:build verif

// Contracts for package message (checked by /verif/govc; compiled only with -tags verif).
// Besides the //@ contract comments this file holds ghost lemma functions: Go functions with an
// empty effect whose contract is a lemma and whose loop invariant is the induction; they are
// verified like any other function and "called" where the lemma is needed.
package message

// ---- option header layout (RFC 7252 section 3.1) -----------------------------------------------
//
// A delta or length x is written as a 4-bit nibble plus 0/1/2 extension bytes:
//   x in 0..12      nibble x,  no extension
//   x in 13..268    nibble 13, one byte  x-13
//   x in 269..65804 nibble 14, two bytes x-269 (big endian)
//
//@ spec nib(x int) int  = ite(x < 13, x, ite(x < 269, 13, 14))
//@ spec hs(x int) int   = ite(x < 13, 0, ite(x < 269, 1, 2))
//@ spec extv(x int) int = ite(x < 13, 0, ite(x < 269, x - 13, x - 269))
//@ spec extByte(x int, i int) int = ite(x < 269, x - 13, ite(i == 0, (x - 269) / 256, (x - 269) % 256))
//@ spec hdrByte(d int, l int, k int) int = ite(k == 0, 16*nib(d) + nib(l), ite(k < 1 + hs(d), extByte(d, k - 1), extByte(l, k - 1 - hs(d))))
//@ spec hdrAt(b []byte, p int, d int, l int) bool = forall k int :: {b[k]} p <= k && k < p + 1 + hs(d) + hs(l) ==> b[k] == hdrByte(d, l, k - p)
//@ spec optLen(d int, l int) int = 1 + hs(d) + hs(l) + l
//
//@ func extendOpt(opt int) (o int, ext int)
//@   ensures [nibble] o == nib(opt)
//@   ensures [ext] ext == extv(opt)
//
//@ func VerifyOptLen(optID OptionID, valueLen int) (r bool)
//@   ensures [registry] r <==> (valueLen >= CoapOptionDefs[optID].MinLen && valueLen <= CoapOptionDefs[optID].MaxLen)
//
//@ func marshalOptionHeaderExt(buf []byte, opt int, ext int) (n int, err error)
//@   requires 0 <= ext && ext <= 65535 && (opt == 13 ==> ext <= 255)
//@   modifies buf[0 : min(len(buf), ite(opt == 13, 1, ite(opt == 14, 2, 0)))]
//@   ensures [size] n == ite(opt == 13, 1, ite(opt == 14, 2, 0))
//@   ensures [fits-iff] (err == nil) <==> len(buf) >= n
//@   ensures [err-kind] err != nil ==> err == ErrTooSmall
//@   ensures [byte] err == nil && opt == 13 ==> buf[0] == ext
//@   ensures [word] err == nil && opt == 14 ==> buf[0] == ext / 256 && buf[1] == ext % 256
//
//@ func marshalOptionHeader(buf []byte, delta int, length int) (n int, err error)
//@   requires 0 <= delta && delta <= 65804 && 0 <= length && length <= 65804
//@   modifies buf[0 : min(len(buf), 1 + hs(delta) + hs(length))]
//@   ensures [size] n == 1 + hs(delta) + hs(length)
//@   ensures [fits-iff] (err == nil) <==> len(buf) >= n
//@   ensures [err-kind] err != nil ==> err == ErrTooSmall
//@   ensures [layout] err == nil ==> hdrAt(buf, 0, delta, length)
//
//@ func parseExtOpt(data []byte, opt int) (n int, v int, err error)
//@   requires 0 <= opt && opt <= 15
//@   ensures [size] err == nil ==> n == ite(opt == 13, 1, ite(opt == 14, 2, 0))
//@   ensures [accept-iff] (err == nil) <==> len(data) >= ite(opt == 13, 1, ite(opt == 14, 2, 0))
//@   ensures [err-kind] err != nil ==> err == ErrOptionTruncated
//@   ensures [value] err == nil ==> v == ite(opt == 13, 13 + data[0], ite(opt == 14, 269 + 256*data[0] + data[1], opt))
//
//@ func (Option) MarshalValue(buf []byte) (n int, err error)
//@   modifies buf[0 : min(len(buf), len(o.Value))]
//@   ensures [size] n == len(o.Value)
//@   ensures [fits-iff] (err == nil) <==> len(buf) >= len(o.Value)
//@   ensures [err-kind] err != nil ==> err == ErrTooSmall
//@   ensures [bytes] err == nil ==> bytesEqOld(buf[0:len(o.Value)], o.Value)
//
//@ func (*Option) UnmarshalValue(buf []byte) (n int, err error)
//@   requires o != nil
//@   modifies o.Value
//@   ensures [alias] err == nil && n == len(buf) && o.Value == buf
//
//@ func (Option) Marshal(buf []byte, previousID OptionID) (n int, err error)
//@   requires o.ID >= previousID && len(o.Value) <= 65804
//@   requires disjoint(buf, o.Value)
//@   modifies buf[0 : min(len(buf), optLen(o.ID - previousID, len(o.Value)))]
//@   ensures [size] n == optLen(o.ID - previousID, len(o.Value))
//@   ensures [fits-iff] (err == nil) <==> len(buf) >= n
//@   ensures [err-kind] err != nil ==> err == ErrTooSmall
//@   ensures [header] err == nil ==> hdrAt(buf, 0, o.ID - previousID, len(o.Value))
//@   ensures [value] err == nil ==> bytesEqOld(buf[n - len(o.Value) : n], o.Value)
//
// ---- option list encoding -------------------------------------------------------------------
//
//@ spec prevID(o Options, j int) int = ite(j <= 0, 0, o[j-1].ID)
//@ spec delta(o Options, j int) int = o[j].ID - prevID(o, j)
//@ spec optSize(o Options, j int) int = optLen(delta(o, j), len(o[j].Value))
//@ spec rec encLen(o Options, k int) int = ite(k <= 0, 0, encLen(o, k-1) + optSize(o, k-1))
//@ spec sortedOpts(o Options) bool = forall i int, j int :: {o[i].ID, o[j].ID} 0 <= i && i < j && j < len(o) ==> o[i].ID <= o[j].ID
//@ spec wfOptions(o Options) bool = sortedOpts(o) && len(o) <= 4294967296 && (forall j int :: {o[j].ID} 0 <= j && j < len(o) ==> len(o[j].Value) <= 65804)
//@ spec optAt(b []byte, p int, o Options, j int) bool = hdrAt(b, p, delta(o, j), len(o[j].Value)) && bytesEqOld(b[p + 1 + hs(delta(o, j)) + hs(len(o[j].Value)) : p + optSize(o, j)], o[j].Value)
//
//@ spec optsAt(b []byte, o Options) bool = forall j int :: {encLen(o, j)} 0 <= j && j < len(o) ==> 0 <= encLen(o, j) && encLen(o, j) + optSize(o, j) <= encLen(o, len(o)) && optAt(b, encLen(o, j), o, j)
//@ spec valuesDisjoint(b []byte, o Options) bool = forall j int :: {o[j].ID} 0 <= j && j < len(o) ==> disjoint(b, o[j].Value)
//
//@ func (Options) Marshal(buf []byte) (n int, err error)
//@   requires wfOptions(options)
//@   requires valuesDisjoint(buf, options)
//@   modifies buf[0 : len(buf)]
//@   ensures [size] n == encLen(options, len(options))
//@   ensures [fits-iff] (err == nil) <==> (buf != nil && n <= len(buf))
//@   ensures [err-kind] err != nil ==> err == ErrTooSmall
//@   ensures [size-bound] 0 <= n && n <= 65809 * len(options)
//@   ensures [layout] err == nil ==> optsAt(buf, options)
//@   loop 0:
//@     modifies buf[0 : len(buf)]
//@     invariant 0 <= #iter && #iter <= len(options)
//@     invariant length == encLen(options, #iter)
//@     invariant 0 <= length && length <= 65809 * #iter
//@     invariant previousID == prevID(options, #iter)
//@     invariant buf == nil || buf == old(buf)
//@     invariant buf != nil ==> length <= len(buf)
//@     invariant [bounds] forall j int :: {encLen(options, j)} 0 <= j && j < #iter ==> 0 <= encLen(options, j) && encLen(options, j) + optSize(options, j) <= length
//@     invariant [hdr] buf != nil ==> forall j int :: {encLen(options, j)} 0 <= j && j < #iter ==> hdrAt(old(buf), encLen(options, j), delta(options, j), len(options[j].Value))
//@     invariant [val] buf != nil ==> forall j int :: {encLen(options, j)} 0 <= j && j < #iter ==> bytesEqOld(old(buf)[encLen(options, j) + 1 + hs(delta(options, j)) + hs(len(options[j].Value)) : encLen(options, j) + optSize(options, j)], options[j].Value)
//@     invariant [too-small] buf == nil && old(buf) != nil ==> length > len(old(buf))
//@     decreases len(options) - #iter
//
// ---- option list decoding: reference parser (RFC 7252 section 3.1) ------------------------------
//
// The reference parser is written over the raw byte string d and the index k of a raw option:
// rawStart(d,k) is the byte offset of raw option k, rawNum(d,k) the running option number after k
// options. Documented leniencies: options with registry-illegal length or unknown format are
// dropped, option number 0 is dropped.
//
//@ spec hsn(n int) int = ite(n == 13, 1, ite(n == 14, 2, 0))
//@ spec extVal(d []byte, q int, n int) int = ite(n < 13, n, ite(n == 13, 13 + d[q], 269 + 256*d[q] + d[q+1]))
//@ spec rawDelta(d []byte, p int) int = extVal(d, p + 1, d[p] / 16)
//@ spec rawLen(d []byte, p int) int = extVal(d, p + 1 + hsn(d[p] / 16), d[p] % 16)
//@ spec rawHdr(d []byte, p int) int = 1 + hsn(d[p] / 16) + hsn(d[p] % 16)
//@ spec rawSize(d []byte, p int) int = rawHdr(d, p) + rawLen(d, p)
//@ spec rec rawStart(d []byte, k int) int = ite(k <= 0, 0, rawStart(d, k-1) + rawSize(d, rawStart(d, k-1)))
//@ spec rec rawNum(d []byte, k int) int = ite(k <= 0, 0, rawNum(d, k-1) + rawDelta(d, rawStart(d, k-1)))
//@ spec terminal(d []byte, p int) bool = p >= len(d) || d[p] == 255
//@ spec rawOKAt(d []byte, p int, num int) bool = 0 <= p && p < len(d) && d[p] != 255 && d[p] / 16 != 15 && d[p] % 16 != 15 && p + rawHdr(d, p) <= len(d) && p + rawSize(d, p) <= len(d) && num + rawDelta(d, p) <= 65535
//@ spec rawOK(d []byte, k int) bool = rawOKAt(d, rawStart(d, k), rawNum(d, k))
//@ spec rawValPos(d []byte, k int) int = rawStart(d, k) + rawHdr(d, rawStart(d, k))
//@ spec kept(defs map[OptionID]OptionDef, id int, n int) bool = !present(defs, id) || (defs[id].ValueFormat != 0 && n >= defs[id].MinLen && n <= defs[id].MaxLen)
//@ spec keptRaw(d []byte, defs map[OptionID]OptionDef, k int) bool = rawNum(d, k+1) != 0 && kept(defs, rawNum(d, k+1), rawLen(d, rawStart(d, k)))
//@ spec rec nKept(d []byte, defs map[OptionID]OptionDef, k int) int = ite(k <= 0, 0, nKept(d, defs, k-1) + ite(keptRaw(d, defs, k-1), 1, 0))
//
//@ spec prefixOK(d []byte, K int) bool = K >= 0 && (forall j int :: {rawStart(d, j)} 0 <= j && j < K ==> rawOK(d, j))
//@ spec parsedOK(d []byte, K int) bool = prefixOK(d, K) && terminal(d, rawStart(d, K))
//@ spec consumedBy(d []byte, K int) int = rawStart(d, K) + ite(rawStart(d, K) < len(d), 1, 0)
//@ spec decodedOpts(o Options, base int, d []byte, defs map[OptionID]OptionDef, K int) bool = len(o) == base + nKept(d, defs, K) && (forall j int :: {rawStart(d, j)} 0 <= j && j < K && keptRaw(d, defs, j) ==> 0 <= nKept(d, defs, j) && nKept(d, defs, j) < nKept(d, defs, K) && o[base + nKept(d, defs, j)].ID == rawNum(d, j+1) && o[base + nKept(d, defs, j)].Value == d[rawValPos(d, j) : rawValPos(d, j) + rawLen(d, rawStart(d, j))])
//
//@ func (*Option) Unmarshal(data []byte, optionDefs map[OptionID]OptionDef, optionID OptionID) (n int, err error)
//@   requires o != nil && len(data) < 4294967296
//@   modifies o.ID, o.Value
//@   ensures [consumes-all] err == nil && n == len(data)
//@   ensures [kept] kept(optionDefs, optionID, len(data)) ==> o.ID == optionID && o.Value == data
//@   ensures [dropped] !kept(optionDefs, optionID, len(data)) ==> o.ID == old(o.ID) && o.Value == old(o.Value)
//
//@ func (*Options) Unmarshal(data []byte, optionDefs map[OptionID]OptionDef) (n int, err error)
//@   requires options != nil
//@   modifies *options, (*options)[len(*options) : cap(*options)]
//@   ensures [parsed] err == nil ==> parsedOK(data, #n0)
//@   ensures [consumed] err == nil ==> n == consumedBy(data, #n0) && n <= len(data)
//@   ensures [rejects] err != nil && !errors.Is(err, ErrOptionsTooSmall) ==> prefixOK(data, #n0) && !terminal(data, rawStart(data, #n0)) && !rawOK(data, #n0)
//@   ensures [too-small-prefix] errors.Is(err, ErrOptionsTooSmall) ==> prefixOK(data, #n0)
//@   ensures [too-small-ok] errors.Is(err, ErrOptionsTooSmall) ==> rawOK(data, #n0)
//@   ensures [too-small-cap] errors.Is(err, ErrOptionsTooSmall) ==> cap(old(*options)) == len(old(*options)) + nKept(data, optionDefs, #n0)
//@   ensures [n-err] err != nil ==> n == -1
//@   ensures [same-array] (*options)[0:0] == old(*options)[0:0] && cap(*options) == cap(old(*options))
//@   ensures [fields] err == nil ==> decodedOpts(*options, len(old(*options)), data, optionDefs, #n0)
//@   ensures [prefix-kept] forall i int :: {(*options)[i].ID} 0 <= i && i < len(old(*options)) ==> (*options)[i] == old((*options)[i])
//@   loop 0:
//@     modifies *options, (*options)[len(*options) : cap(*options)]
//@     invariant 0 <= #iter
//@     invariant processed == rawStart(old(data), #iter) && prev == rawNum(old(data), #iter)
//@     invariant 0 <= processed && processed <= len(old(data)) && 0 <= prev && prev <= 65535
//@     invariant data == old(data)[processed:]
//@     invariant forall j int :: {rawStart(old(data), j)} 0 <= j && j < #iter ==> rawOK(old(data), j)
//@     invariant (*options)[0:0] == old(*options)[0:0] && cap(*options) == cap(old(*options))
//@     invariant len(*options) == len(old(*options)) + nKept(old(data), optionDefs, #iter) && nKept(old(data), optionDefs, #iter) >= 0
//@     invariant forall j int :: {rawStart(old(data), j)} 0 <= j && j < #iter && keptRaw(old(data), optionDefs, j) ==> 0 <= nKept(old(data), optionDefs, j) && nKept(old(data), optionDefs, j) < nKept(old(data), optionDefs, #iter) && (*options)[len(old(*options)) + nKept(old(data), optionDefs, j)].ID == rawNum(old(data), j+1) && (*options)[len(old(*options)) + nKept(old(data), optionDefs, j)].Value == old(data)[rawValPos(old(data), j) : rawValPos(old(data), j) + rawLen(old(data), rawStart(old(data), j))]
//@     invariant forall i int :: {(*options)[i].ID} 0 <= i && i < len(old(*options)) ==> (*options)[i] == old((*options)[i])
//@     decreases len(data)
//
//@ func ValidateMID(mid int32) (r bool)
//@   ensures [range] r <==> (0 <= mid && mid <= 65535)
//
//@ func ValidateType(typ Type) (r bool)
//@   ensures [wire-range] r <==> (0 <= typ && typ <= 3)
//@   known-finding [wire-range] D3: 4 <= typ && typ <= 255
//
// ---- lemma: the reference parser reads an encoding back -----------------------------------------
//
// If d carries the encoding of the option list L (layout predicates in the current state) followed
// by the end of data or the payload marker, then the reference parser finds exactly the options of
// L at the encoder's offsets. Proved by induction on the option index (the ghost loop below).
//
//@ spec optAtNow(b []byte, p int, o Options, j int) bool = hdrAt(b, p, delta(o, j), len(o[j].Value)) && bytesEq(b[p + 1 + hs(delta(o, j)) + hs(len(o[j].Value)) : p + optSize(o, j)], o[j].Value)
//@ spec optsAtNow(b []byte, o Options) bool = forall j int :: {encLen(o, j)} 0 <= j && j < len(o) ==> 0 <= encLen(o, j) && encLen(o, j) + optSize(o, j) <= encLen(o, len(o)) && optAtNow(b, encLen(o, j), o, j)
//@ spec legalOpts(o Options, defs map[OptionID]OptionDef) bool = forall j int :: {o[j].ID} 0 <= j && j < len(o) ==> o[j].ID != 0 && kept(defs, o[j].ID, len(o[j].Value))
//@ spec parsedAs(d []byte, o Options, defs map[OptionID]OptionDef, k int) bool = rawStart(d, k) == encLen(o, k) && rawNum(d, k) == prevID(o, k) && nKept(d, defs, k) == k
//@ spec parsedOpt(d []byte, o Options, defs map[OptionID]OptionDef, j int) bool = rawOK(d, j) && keptRaw(d, defs, j) && rawLen(d, rawStart(d, j)) == len(o[j].Value) && rawValPos(d, j) == encLen(o, j) + 1 + hs(delta(o, j)) + hs(len(o[j].Value))
//
//@ func VerifParseOfEncoding(d []byte, o Options, defs map[OptionID]OptionDef)
//@   requires wfOptions(o) && legalOpts(o, defs) && optsAtNow(d, o)
//@   requires 0 <= encLen(o, len(o)) && encLen(o, len(o)) <= len(d) && (len(d) == encLen(o, len(o)) || d[encLen(o, len(o))] == 255)
//@   modifies nothing
//@   ensures [starts] forall j int :: {rawStart(d, j)} 0 <= j && j <= len(o) ==> parsedAs(d, o, defs, j)
//@   ensures [options] forall j int :: {rawStart(d, j)} 0 <= j && j < len(o) ==> parsedOpt(d, o, defs, j)
//@   ensures [terminal] terminal(d, rawStart(d, len(o)))
//@   ensures [unique] forall K int :: {rawStart(d, K)} K >= 0 && prefixOK(d, K) ==> K <= len(o) && (terminal(d, rawStart(d, K)) ==> K == len(o)) && (rawOK(d, K) ==> K < len(o))
//@   loop 0:
//@     invariant 0 <= k && k <= len(o) && k == #iter
//@     invariant parsedAs(d, o, defs, k)
//@     invariant forall j int :: {rawStart(d, j)} 0 <= j && j < k ==> parsedAs(d, o, defs, j) && parsedOpt(d, o, defs, j)
//@     apply k < len(o) ==> VerifHeaderParse(d, encLen(o, k), delta(o, k), len(o[k].Value))
//@     assert [s1] k < len(o) ==> rawLen(d, rawStart(d, k)) == len(o[k].Value) && rawValPos(d, k) == encLen(o, k) + 1 + hs(delta(o, k)) + hs(len(o[k].Value))
//@     assert [s0] k < len(o) ==> rawNum(d, k + 1) == o[k].ID && o[k].ID != 0 && kept(defs, o[k].ID, len(o[k].Value))
//@     assert [s2] k < len(o) ==> rawOK(d, k)
//@     assert [s3] k < len(o) ==> keptRaw(d, defs, k)
//@     assert [step] k < len(o) ==> parsedOpt(d, o, defs, k)
//@     unfold rawStart(d, k), rawNum(d, k), nKept(d, defs, k), encLen(o, k), rawStart(d, k + 1), rawNum(d, k + 1), nKept(d, defs, k + 1), encLen(o, k + 1)
//@     decreases len(o) - k

// VerifParseOfEncoding is a ghost lemma (see the contract above); it has no effect.
func VerifParseOfEncoding(d []byte, o Options, defs map[OptionID]OptionDef) {
	for k := 0; k < len(o); k++ {
	}
}

// ---- lemma: one option header written by the encoder is read back by the reference parser -------
//
//@ func VerifHeaderParse(d []byte, p int, dl int, l int)
//@   requires 0 <= p && 0 <= dl && dl <= 65804 && 0 <= l && l <= 65804 && p + 1 + hs(dl) + hs(l) <= len(d)
//@   requires hdrAt(d, p, dl, l)
//@   modifies nothing
//@   ensures [delta] rawDelta(d, p) == dl
//@   ensures [length] rawLen(d, p) == l
//@   ensures [hdr] rawHdr(d, p) == 1 + hs(dl) + hs(l)
//@   ensures [nibbles] d[p] != 255 && d[p] / 16 != 15 && d[p] % 16 != 15

// VerifHeaderParse is a ghost lemma (see the contract above); it has no effect.
func VerifHeaderParse(d []byte, p int, dl int, l int) {}
