//go:build verif

// Contracts for package noresponse (checked by /verif/govc; comment-only, compiled only with -tags verif).
package noresponse

// ---- C20: RFC 7967 -------------------------------------------------------------------------
//
// The No-Response option value is a bit map: bit value 2 = not interested in 2.xx, 8 = 4.xx,
// 16 = 5.xx.  The class of a response code is its top three bits (code div 32).
//
//@ spec bit(v int, k int) bool = (v / k) % 2 == 1
//@ spec suppressed(v int, c int) bool = (c / 32 == 2 && bit(v, 2)) || (c / 32 == 4 && bit(v, 8)) || (c / 32 == 5 && bit(v, 16))
//
//@ func isSet(n uint32, pos uint32) (r bool)
//@   inline
//
//@ func IsNoResponseCode(code codes.Code, noRespValue uint32) (err error)
//@   ensures [class-rule] (err != nil) <==> suppressed(noRespValue, code)
//@   ensures [err-kind] err != nil ==> err == ErrMessageNotInterested
