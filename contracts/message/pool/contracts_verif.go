//go:build verif

// Contracts for package pool (checked by /verif/govc; comment-only, compiled only with -tags verif).
package pool

// ---- C15: message builder -----------------------------------------------------------------------
//
// Representation invariant of a pooled message: the option list is sorted and no stored option value
// overlaps the still unused part of the value buffer, so writing the next value can never change a
// value stored earlier; growing the buffer allocates a fresh array and leaves old values alone.
//
//@ spec valuesClear(o message.Options, buf []byte) bool = forall j int :: {o[j].ID} 0 <= j && j < len(o) ==> o[j].ID >= 0 && disjoint(o[j].Value, buf)
//@ spec msgInv(r *Message) bool = sortedOpts(r.msg.Options) && valuesClear(r.msg.Options, r.valueBuffer[0 : cap(r.valueBuffer)])
//
//@ func (*Message) SetCode(code codes.Code)
//@   requires r != nil
//@   modifies r.msg.Code, r.isModified
//@   ensures [set] r.msg.Code == code && r.isModified
//
//@ func (*Message) Code() (c codes.Code)
//@   requires r != nil
//@   ensures [get] c == r.msg.Code
//
//@ func (*Message) IsModified() (b bool)
//@   requires r != nil
//@   ensures [get] b == r.isModified
//
//@ func (*Message) Options() (o message.Options)
//@   requires r != nil
//@   ensures [get] o == r.msg.Options
//
// AddOptionBytes / SetOptionBytes: the value is copied into the value buffer (grown when needed), the
// list is edited by Options.Add / Options.Set, every option that stays keeps its bytes.
//
//@ func (*Message) AddOptionBytes(opt message.OptionID, value []byte)
//@   requires r != nil && msgInv(r) && len(value) < 281474976710656 && len(r.msg.Options) < 281474976710655 && disjoint(value, r.valueBuffer[0 : cap(r.valueBuffer)])
//@   modifies r.msg.Options, r.msg.Options[0 : cap(r.msg.Options)], r.valueBuffer, r.valueBuffer[0 : cap(r.valueBuffer)], r.isModified
//@   witness p = Add.p
//@   ensures [modified] r.isModified
//@   ensures [sorted] sortedOpts(r.msg.Options)
//@   ensures [len] len(r.msg.Options) == len(old(r.msg.Options)) + 1 && 0 <= p && p <= len(old(r.msg.Options))
//@   ensures [position] forall i int :: {old(r.msg.Options[i].ID)} 0 <= i && i < len(old(r.msg.Options)) ==> ((i < p) <==> old(r.msg.Options[i].ID) <= opt)
//@   ensures [before] forall i int :: {r.msg.Options[i].ID} 0 <= i && i < p ==> r.msg.Options[i] == old(r.msg.Options[i])
//@   ensures [inserted] r.msg.Options[p].ID == opt && len(r.msg.Options[p].Value) == len(value) && bytesEqOld(r.msg.Options[p].Value, value)
//@   ensures [after] forall i int :: {r.msg.Options[i].ID} p < i && i < len(r.msg.Options) ==> r.msg.Options[i] == old(r.msg.Options[i - 1])
//@   ensures [clear] valuesClear(r.msg.Options, r.valueBuffer[0 : cap(r.valueBuffer)])
//@   ensures [values-kept] forall i int :: {old(r.msg.Options[i].ID)} 0 <= i && i < len(old(r.msg.Options)) ==> bytesEqOld(old(r.msg.Options[i].Value), old(r.msg.Options[i].Value))
//
//@ func (*Message) SetOptionBytes(opt message.OptionID, value []byte)
//@   requires r != nil && msgInv(r) && len(value) < 281474976710656 && len(r.msg.Options) < 281474976710655 && disjoint(value, r.valueBuffer[0 : cap(r.valueBuffer)])
//@   modifies r.msg.Options, r.msg.Options[0 : cap(r.msg.Options)], r.valueBuffer, r.valueBuffer[0 : cap(r.valueBuffer)], r.isModified
//@   witness f = Set.f
//@   witness l = Set.l
//@   ensures [modified] r.isModified
//@   ensures [sorted] sortedOpts(r.msg.Options)
//@   ensures [run-bounds] 0 <= f && f <= l && l <= len(old(r.msg.Options))
//@   ensures [run-smaller] forall i int :: {old(r.msg.Options[i].ID)} 0 <= i && i < len(old(r.msg.Options)) ==> ((i < f) <==> old(r.msg.Options[i].ID) < opt)
//@   ensures [run-larger] forall i int :: {old(r.msg.Options[i].ID)} 0 <= i && i < len(old(r.msg.Options)) ==> ((i >= l) <==> old(r.msg.Options[i].ID) > opt)
//@   ensures [len] len(r.msg.Options) == f + 1 + (len(old(r.msg.Options)) - l)
//@   ensures [before] forall i int :: {r.msg.Options[i].ID} 0 <= i && i < f ==> r.msg.Options[i] == old(r.msg.Options[i])
//@   ensures [set] r.msg.Options[f].ID == opt && len(r.msg.Options[f].Value) == len(value) && bytesEqOld(r.msg.Options[f].Value, value)
//@   ensures [after] forall i int :: {r.msg.Options[i].ID} f < i && i < len(r.msg.Options) ==> r.msg.Options[i] == old(r.msg.Options[i - f - 1 + l])
//@   ensures [clear] valuesClear(r.msg.Options, r.valueBuffer[0 : cap(r.valueBuffer)])
//@   ensures [values-kept] forall i int :: {old(r.msg.Options[i].ID)} 0 <= i && i < len(old(r.msg.Options)) ==> bytesEqOld(old(r.msg.Options[i].Value), old(r.msg.Options[i].Value))
//
//@ func (*Message) SetOptionUint32(opt message.OptionID, value uint32)
//@   requires r != nil && msgInv(r) && len(r.msg.Options) < 281474976710655
//@   modifies r.msg.Options, r.msg.Options[0 : cap(r.msg.Options)], r.valueBuffer, r.valueBuffer[0 : cap(r.valueBuffer)], r.isModified
//@   witness f = SetUint32.f
//@   witness l = SetUint32.l
//@   ensures [modified] r.isModified
//@   ensures [sorted] sortedOpts(r.msg.Options)
//@   ensures [len] 0 <= f && f <= l && l <= len(old(r.msg.Options)) && len(r.msg.Options) == f + 1 + (len(old(r.msg.Options)) - l)
//@   ensures [before] forall i int :: {r.msg.Options[i].ID} 0 <= i && i < f ==> r.msg.Options[i] == old(r.msg.Options[i])
//@   ensures [set] r.msg.Options[f].ID == opt && len(r.msg.Options[f].Value) == u32Len(value) && beU32(r.msg.Options[f].Value, u32Len(value)) == value
//@   ensures [after] forall i int :: {r.msg.Options[i].ID} f < i && i < len(r.msg.Options) ==> r.msg.Options[i] == old(r.msg.Options[i - f - 1 + l])
//@   ensures [clear] valuesClear(r.msg.Options, r.valueBuffer[0 : cap(r.valueBuffer)])
//@   ensures [values-kept] forall i int :: {old(r.msg.Options[i].ID)} 0 <= i && i < len(old(r.msg.Options)) ==> bytesEqOld(old(r.msg.Options[i].Value), old(r.msg.Options[i].Value))
//
//@ func (*Message) Remove(opt message.OptionID)
//@   requires r != nil && msgInv(r)
//@   ghost-arg Remove.gbuf = r.valueBuffer[0 : cap(r.valueBuffer)]
//@   modifies r.msg.Options, r.msg.Options[0 : len(r.msg.Options)], r.isModified
//@   ensures [modified] r.isModified
//@   ensures [gone] forall i int :: {r.msg.Options[i].ID} 0 <= i && i < len(r.msg.Options) ==> r.msg.Options[i].ID != opt
//@   ensures [sorted] sortedOpts(r.msg.Options)
//@   ensures [clear] valuesClear(r.msg.Options, r.valueBuffer[0 : cap(r.valueBuffer)])
//@   ensures [same-array] r.msg.Options[0:0] == old(r.msg.Options)[0:0] && cap(r.msg.Options) == cap(old(r.msg.Options)) && len(r.msg.Options) <= len(old(r.msg.Options))
//
//@ func (*Message) SetBody(s io.ReadSeeker)
//@   requires r != nil
//@   modifies r.body, r.isModified
//@   ensures [set] r.isModified
//
//@ func (*Message) SetContentFormat(contentFormat message.MediaType)
//@   inline
//
// The pooled ResetOptionsTo: the values are copied into the free part of the message's own value buffer
// (grown when it is too small), which is consumed monotonically, so the bytes of no option that anybody
// holds are written over. Callers get the frame and the result unconditionally; the body is verified under
// the entry conditions of the `assumes` lines (the message invariant, the input sorted and of bounded
// length, its values outside the free part of the buffer, its list not the message's own backing array),
// which are NOT checked at the call sites and are reported as unchecked assumptions.
//@ func (*Message) ResetOptionsTo(in message.Options)
//@   requires r != nil
//@   assumes msgInv(r) && sortedOpts(in) && len(in) <= 16384 && sumLens(in, len(in)) <= 281474976710656
//@   assumes valuesDisjoint(r.valueBuffer[0 : cap(r.valueBuffer)], in) && distinctObjects(in, r.msg.Options)
//@   modifies r.msg.Options, r.msg.Options[0 : cap(r.msg.Options)], r.valueBuffer, r.valueBuffer[0 : cap(r.valueBuffer)], r.isModified
//@   ensures [message-invariant] sortedOpts(r.msg.Options) && valuesClear(r.msg.Options, r.valueBuffer[0 : cap(r.valueBuffer)]) && len(r.msg.Options) == len(in)
//@   ensures [list-backing] (r.msg.Options[0:0] == old(r.msg.Options[0:0]) && cap(r.msg.Options) == old(cap(r.msg.Options))) || fresh(r.msg.Options)
//@   ensures [buffer-consumed-monotonically] fresh(r.valueBuffer) || (r.valueBuffer.obj == old(r.valueBuffer.obj) && r.valueBuffer.off >= old(r.valueBuffer.off) && r.valueBuffer.off + cap(r.valueBuffer) == old(r.valueBuffer.off + cap(r.valueBuffer)))
//@   ensures [modified] len(in) > 0 ==> r.isModified
//@   ensures [unmodified-when-empty] len(in) == 0 ==> r.isModified == old(r.isModified)
//@   ensures [ids-copied] forall j int :: {r.msg.Options[j].ID} 0 <= j && j < len(in) ==> r.msg.Options[j].ID == in[j].ID && len(r.msg.Options[j].Value) == len(in[j].Value)
//@   ensures [input-untouched] forall k int :: {in[k].ID} 0 <= k && k < len(in) ==> bytesEqOld(in[k].Value, in[k].Value)

// ---- header field accessors (used by C05/C06 contracts of the datagram connection) ----------------
//
//@ func (*Message) SetMessageID(mid int32)
//@   requires r != nil
//@   modifies r.msg.MessageID, r.isModified
//@   ensures [set] r.msg.MessageID == mid && r.isModified
//
//@ func (*Message) MessageID() (m int32)
//@   requires r != nil
//@   ensures [get] m == r.msg.MessageID
//
//@ func (*Message) SetType(typ message.Type)
//@   requires r != nil
//@   modifies r.msg.Type, r.isModified
//@   ensures [set] r.msg.Type == typ && r.isModified
//
//@ func (*Message) Type() (t message.Type)
//@   requires r != nil
//@   ensures [get] t == r.msg.Type
//
//@ func (*Message) SetModified(b bool)
//@   requires r != nil
//@   modifies r.isModified
//@   ensures [set] r.isModified == b
//
//@ func (*Message) SetToken(token message.Token)
//@   requires r != nil
//@   modifies r.msg.Token, r.msg.Token[0 : cap(r.msg.Token)]
//@   ensures [nil] token == nil ==> r.msg.Token == nil
//@   ensures [len] len(r.msg.Token) == len(token)
//@   ensures [bytes] distinctObjects(token, old(r.msg.Token)) ==> bytesEq(r.msg.Token, token)
//
// Assumed contracts (unverified here; decoding is C01/C02):
//
//
//@ func (*Message) SetControlMessage(cm *net.ControlMessage)
//@   trusted
//@   requires r != nil
//@   modifies r.controlMessage
//
//@ func (*Message) SetSequence(seq uint64)
//@   trusted
//@   requires r != nil
//@   modifies r.sequence
//
//@ func (*Message) Context() (c context.Context)
//@   requires r != nil
//@   ensures [get] c == r.ctx
//
//@ func (*Message) Observe() (v uint32, err error)
//@   trusted
//@   requires r != nil
//
//@ func (*Message) Token() (t message.Token)
//@   requires r != nil
//@   ensures [copy] len(t) == len(r.msg.Token) && (len(t) > 0 ==> fresh(t)) && bytesEq(t, r.msg.Token)
//@   ensures [nil-stays-nil] r.msg.Token == nil ==> t == nil
//@   ensures [same-hash] len(r.msg.Token) <= 8 ==> tokenHashOf(t) == tokenHashOf(r.msg.Token)
//
//@ func (*Message) ETag() (v []byte, err error)
//@   trusted
//@   requires r != nil
//
//@ func (*Message) HasOption(id message.OptionID) (b bool)
//@   trusted
//@   requires r != nil
//
//@ func (*Message) SetObserve(observe uint32)
//@   trusted
//@   requires r != nil
//@   modifies *r
//
//@ func (*Message) SetPath(p string) (err error)
//@   trusted
//@   requires r != nil
//@   modifies *r
//
//@ func (*Message) SetETag(value []byte) (err error)
//@   trusted
//@   requires r != nil
//@   modifies *r
//
//@ func (*Message) Hijack()
//@   trusted
//@   requires r != nil
//@   modifies r.hijacked
//
//@ func (*Message) IsSeparateMessage() (b bool)
//@   trusted
//@   requires r != nil
//
// Clone (what a retransmission sends is a Clone of the request, C06): the copy carries the same code,
// type, message ID, a token of the same bytes and as many options; the body is copied through io
// (assumed) and the source's read position is restored.
//
//@ func (*Message) Clone(msg *Message) (err error)
//@   requires r != nil && msg != nil && msg != r
//@   modifies msg.msg.Code, msg.isModified, msg.msg.Token, msg.msg.Token[0 : cap(msg.msg.Token)], msg.msg.Options, msg.msg.Options[0 : cap(msg.msg.Options)], msg.valueBuffer, msg.valueBuffer[0 : cap(msg.valueBuffer)], msg.msg.Type, msg.msg.MessageID, msg.controlMessage, msg.body
//@   opaque-calls pure
//@   ensures [header-copied] msg.msg.Code == old(r.msg.Code) && msg.msg.Type == old(r.msg.Type) && msg.msg.MessageID == old(r.msg.MessageID)
//@   ensures [token-copied] len(msg.msg.Token) == old(len(r.msg.Token)) && (old(r.msg.Token) == nil ==> msg.msg.Token == nil)
//@   ensures [options-copied] callCount(ResetOptionsTo) == 1 && callArg(ResetOptionsTo, 0, 0) == msg && callArg(ResetOptionsTo, 0, 1) == old(r.msg.Options)
//@   ensures [source-header-untouched] r.msg.Code == old(r.msg.Code) && r.msg.Type == old(r.msg.Type) && r.msg.MessageID == old(r.msg.MessageID)
//
//@ func (*Message) UpsertType(typ message.Type)
//@   trusted
//@   requires r != nil
//@   modifies r.msg.Type, r.isModified
//
//@ func (*Message) UpsertMessageID(mid int32)
//@   trusted
//@   requires r != nil
//@   modifies r.msg.MessageID, r.isModified
//
// ---- C02: a pooled message owns the bytes it was decoded from -----------------------------------------
//
// UnmarshalWithDecoder copies the caller's bytes into the message's own buffer and decodes THAT copy, so
// that token, option values and payload of the decoded message never alias the caller's (reused) receive
// buffer; the retry loop that grows the option list terminates.
//
// Assumed contract of the Decoder interface (both coders are proved against the corresponding
// clauses of their own contracts under C01/C02: what is decoded points into `data`; on
// ErrOptionsTooSmall the list is full and too short for the options the encoding carries):
//
//@ spec optsNeeded(data []byte) int
//@ spec within(a []byte, b []byte) bool = len(a) == 0 || a.obj == b.obj
//
//@ func (Decoder) Decode(buf []byte, m *message.Message) (n int, err error)
//@   trusted
//@   requires m != nil
//@   modifies m.Options, m.Options[len(m.Options) : cap(m.Options)], m.Payload, m.Code, m.Token, m.Type, m.MessageID
//@   ensures [too-small-full] errors.Is(err, message.ErrOptionsTooSmall) ==> len(m.Options) == cap(m.Options) && cap(m.Options) == cap(old(m.Options)) && cap(m.Options) < optsNeeded(buf)
//@   ensures [n] err == nil ==> n == len(buf)
//@   ensures [sorted] err == nil && len(old(m.Options)) == 0 ==> sortedOpts(m.Options)
//@   ensures [needed-bounded] 0 <= optsNeeded(buf) && optsNeeded(buf) <= len(buf)
//@   ensures [same-array] m.Options[0:0] == old(m.Options)[0:0] && cap(m.Options) == cap(old(m.Options)) && len(m.Options) >= len(old(m.Options))
//@   ensures [points-into-data] err == nil ==> within(m.Token, buf) && within(m.Payload, buf) && (forall i int :: {len(m.Options[i].Value)} len(old(m.Options)) <= i && i < len(m.Options) ==> within(m.Options[i].Value, buf))
//
//@ func (*Message) decode(decoder Decoder) (n int, err error)
//@   requires r != nil && len(r.msg.Options) == 0 && len(r.bufferUnmarshal) < 1099511627776
//@   modifies r.msg.Options, r.msg.Options[0 : cap(r.msg.Options)], r.msg.Payload, r.msg.Code, r.msg.Token, r.msg.Type, r.msg.MessageID
//@   ensures [own-copy] err == nil ==> within(r.msg.Token, r.bufferUnmarshal) && within(r.msg.Payload, r.bufferUnmarshal) && (forall i int :: {len(r.msg.Options[i].Value)} 0 <= i && i < len(r.msg.Options) ==> within(r.msg.Options[i].Value, r.bufferUnmarshal))
//@   ensures [buffer-kept] r.bufferUnmarshal == old(r.bufferUnmarshal)
//@   ensures [consumed] err == nil ==> n == len(r.bufferUnmarshal)
//@   ensures [sorted] err == nil ==> sortedOpts(r.msg.Options)
//@   loop 0:
//@     modifies r.msg.Options, r.msg.Options[0 : cap(r.msg.Options)], r.msg.Payload, r.msg.Code, r.msg.Token, r.msg.Type, r.msg.MessageID
//@     invariant [buffer-kept] r.bufferUnmarshal == old(r.bufferUnmarshal)
//@     invariant [empty-list] len(r.msg.Options) == 0
//@     invariant [own-list] (r.msg.Options[0:0] == old(r.msg.Options)[0:0] && cap(r.msg.Options) == cap(old(r.msg.Options))) || fresh(r.msg.Options)
//@     decreases optsNeeded(r.bufferUnmarshal) - cap(r.msg.Options)
//
//@ func (*Message) UnmarshalWithDecoder(decoder Decoder, data []byte) (n int, err error)
//@   requires r != nil && len(r.msg.Options) == 0 && distinctObjects(r.bufferUnmarshal, data) && len(data) < 1099511627776
//@   modifies r.bufferUnmarshal, r.bufferUnmarshal[0 : cap(r.bufferUnmarshal)], r.body, r.msg.Options, r.msg.Options[0 : cap(r.msg.Options)], r.msg.Payload, r.msg.Code, r.msg.Token, r.msg.Type, r.msg.MessageID
//@   ensures [caller-buffer-untouched] bytesEqOld(data, data)
//@   ensures [owns-its-bytes] err == nil ==> within(r.msg.Token, r.bufferUnmarshal) && within(r.msg.Payload, r.bufferUnmarshal) && (forall i int :: {len(r.msg.Options[i].Value)} 0 <= i && i < len(r.msg.Options) ==> within(r.msg.Options[i].Value, r.bufferUnmarshal))
//@   ensures [not-the-callers] len(data) > 0 ==> r.bufferUnmarshal.obj != data.obj
//@   ensures [copy-is-exact] len(r.bufferUnmarshal) == len(data) && bytesEq(r.bufferUnmarshal, data)
//@   ensures [consumed] err == nil ==> n == len(data)
//@   ensures [sorted] err == nil ==> sortedOpts(r.msg.Options)
//
// Assumed contracts of the pool (a message handed out is held by nobody else - the ownership discipline
// of C12 - so for the receiver it is as good as newly allocated; it is empty):
//
//@ func (*Pool) AcquireMessage(ctx context.Context) (m *Message)
//@   trusted
//@   ensures m != nil && fresh(m) && len(m.msg.Options) == 0 && (cap(m.bufferUnmarshal) == 0 || fresh(m.bufferUnmarshal)) && (cap(m.msg.Options) == 0 || fresh(m.msg.Options))
//
//@ func (*Pool) ReleaseMessage(req *Message)
//@   trusted
//
//@ func (*Message) IsHijacked() (b bool)
//@   trusted
//@   requires r != nil
//
//@ func (*Message) ControlMessage() (cm *net.ControlMessage)
//@   trusted
//@   requires r != nil
//
//@ func (*Message) BodySize() (n int64, err error)
//@   trusted
//@   requires r != nil
//
//@ func (*Message) Body() (b io.ReadSeeker)
//@   trusted
//@   requires r != nil
//
//@ func (*Message) GetOptionUint32(id message.OptionID) (v uint32, err error)
//@   trusted
//@   requires r != nil
//
// ---- C12: recycling does not decide ownership ------------------------------------------------------------
//
// Reset (run by the pool when a message is given back) empties the message and keeps its buffers; it
// does not touch the hijacked flag - whether the library or the application is responsible for releasing
// a message is decided by Hijack alone, and the receive path reads the flag after the application may
// already have given the message back.
//
//@ func (*Message) Reset()
//@   requires r != nil
//@   modifies r.msg.Token, r.msg.Code, r.msg.Options, r.msg.MessageID, r.msg.Type, r.msg.Payload, r.valueBuffer, r.body, r.isModified, r.controlMessage, r.bufferMarshal, r.bufferUnmarshal
//@   ensures [emptied] len(r.msg.Options) == 0 && r.msg.Token == nil && r.msg.Payload == nil && r.body == nil && !r.isModified && r.msg.Code == 0
//@   ensures [ownership-flag-kept] atomicLoad(r.hijacked) == old(atomicLoad(r.hijacked))
//
//@ func (*Message) IsPing(isTCP bool) (b bool)
//@   trusted
//@   requires r != nil
//
//@ func (*Message) MarshalWithEncoder(encoder Encoder) (data []byte, err error)
//@   trusted
//@   requires r != nil
//
//@ func (*Message) GetOptionBytes(id message.OptionID) (v []byte, err error)
//@   trusted
//@   requires r != nil
//@   ensures err == nil ==> (exists i int :: {r.msg.Options[i].ID} 0 <= i && i < len(r.msg.Options) && v == r.msg.Options[i].Value)
//@   ensures len(v) < 65536 && (err != nil ==> v == nil)
