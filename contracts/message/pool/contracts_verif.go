//go:build verif

// Contracts for package pool (checked by /verif/govc; comment-only, compiled only with -tags verif).
package pool

// ---- C15: message builder -----------------------------------------------------------------------
//
// Representation invariant of a pooled message: the option list is sorted and no stored option value
// overlaps the still unused part of the value buffer, so writing the next value can never change a
// value stored earlier; growing the buffer allocates a fresh array and leaves old values alone.
//
//@ spec valuesClear(o message.Options, buf []byte) bool = forall j int :: {o[j].ID} 0 <= j && j < len(o) ==> o[j].ID >= 0 && disjoint(o[j].Value, buf)
//@ spec msgInv(r *Message) bool = sortedOpts(r.msg.Options) && valuesClear(r.msg.Options, r.valueBuffer[0 : cap(r.valueBuffer)])
//
//@ func (*Message) SetCode(code codes.Code)
//@   requires r != nil
//@   modifies r.msg.Code, r.isModified
//@   ensures [set] r.msg.Code == code && r.isModified
//
//@ func (*Message) Code() (c codes.Code)
//@   requires r != nil
//@   ensures [get] c == r.msg.Code
//
//@ func (*Message) IsModified() (b bool)
//@   requires r != nil
//@   ensures [get] b == r.isModified
//
//@ func (*Message) Options() (o message.Options)
//@   requires r != nil
//@   ensures [get] o == r.msg.Options
//
// AddOptionBytes / SetOptionBytes: the value is copied into the value buffer (grown when needed), the
// list is edited by Options.Add / Options.Set, every option that stays keeps its bytes.
//
//@ func (*Message) AddOptionBytes(opt message.OptionID, value []byte)
//@   requires r != nil && msgInv(r) && len(value) < 281474976710656 && len(r.msg.Options) < 281474976710655 && disjoint(value, r.valueBuffer[0 : cap(r.valueBuffer)])
//@   modifies r.msg.Options, r.msg.Options[0 : cap(r.msg.Options)], r.valueBuffer, r.valueBuffer[0 : cap(r.valueBuffer)], r.isModified
//@   witness p = Add.p
//@   ensures [modified] r.isModified
//@   ensures [sorted] sortedOpts(r.msg.Options)
//@   ensures [len] len(r.msg.Options) == len(old(r.msg.Options)) + 1 && 0 <= p && p <= len(old(r.msg.Options))
//@   ensures [position] forall i int :: {old(r.msg.Options[i].ID)} 0 <= i && i < len(old(r.msg.Options)) ==> ((i < p) <==> old(r.msg.Options[i].ID) <= opt)
//@   ensures [before] forall i int :: {r.msg.Options[i].ID} 0 <= i && i < p ==> r.msg.Options[i] == old(r.msg.Options[i])
//@   ensures [inserted] r.msg.Options[p].ID == opt && len(r.msg.Options[p].Value) == len(value) && bytesEqOld(r.msg.Options[p].Value, value)
//@   ensures [after] forall i int :: {r.msg.Options[i].ID} p < i && i < len(r.msg.Options) ==> r.msg.Options[i] == old(r.msg.Options[i - 1])
//@   ensures [clear] valuesClear(r.msg.Options, r.valueBuffer[0 : cap(r.valueBuffer)])
//@   ensures [values-kept] forall i int :: {old(r.msg.Options[i].ID)} 0 <= i && i < len(old(r.msg.Options)) ==> bytesEqOld(old(r.msg.Options[i].Value), old(r.msg.Options[i].Value))
//
//@ func (*Message) SetOptionBytes(opt message.OptionID, value []byte)
//@   requires r != nil && msgInv(r) && len(value) < 281474976710656 && len(r.msg.Options) < 281474976710655 && disjoint(value, r.valueBuffer[0 : cap(r.valueBuffer)])
//@   modifies r.msg.Options, r.msg.Options[0 : cap(r.msg.Options)], r.valueBuffer, r.valueBuffer[0 : cap(r.valueBuffer)], r.isModified
//@   witness f = Set.f
//@   witness l = Set.l
//@   ensures [modified] r.isModified
//@   ensures [sorted] sortedOpts(r.msg.Options)
//@   ensures [run-bounds] 0 <= f && f <= l && l <= len(old(r.msg.Options))
//@   ensures [run-smaller] forall i int :: {old(r.msg.Options[i].ID)} 0 <= i && i < len(old(r.msg.Options)) ==> ((i < f) <==> old(r.msg.Options[i].ID) < opt)
//@   ensures [run-larger] forall i int :: {old(r.msg.Options[i].ID)} 0 <= i && i < len(old(r.msg.Options)) ==> ((i >= l) <==> old(r.msg.Options[i].ID) > opt)
//@   ensures [len] len(r.msg.Options) == f + 1 + (len(old(r.msg.Options)) - l)
//@   ensures [before] forall i int :: {r.msg.Options[i].ID} 0 <= i && i < f ==> r.msg.Options[i] == old(r.msg.Options[i])
//@   ensures [set] r.msg.Options[f].ID == opt && len(r.msg.Options[f].Value) == len(value) && bytesEqOld(r.msg.Options[f].Value, value)
//@   ensures [after] forall i int :: {r.msg.Options[i].ID} f < i && i < len(r.msg.Options) ==> r.msg.Options[i] == old(r.msg.Options[i - f - 1 + l])
//@   ensures [clear] valuesClear(r.msg.Options, r.valueBuffer[0 : cap(r.valueBuffer)])
//@   ensures [values-kept] forall i int :: {old(r.msg.Options[i].ID)} 0 <= i && i < len(old(r.msg.Options)) ==> bytesEqOld(old(r.msg.Options[i].Value), old(r.msg.Options[i].Value))
//
//@ func (*Message) SetOptionUint32(opt message.OptionID, value uint32)
//@   requires r != nil && msgInv(r) && len(r.msg.Options) < 281474976710655
//@   modifies r.msg.Options, r.msg.Options[0 : cap(r.msg.Options)], r.valueBuffer, r.valueBuffer[0 : cap(r.valueBuffer)], r.isModified
//@   witness f = SetUint32.f
//@   witness l = SetUint32.l
//@   ensures [modified] r.isModified
//@   ensures [sorted] sortedOpts(r.msg.Options)
//@   ensures [len] 0 <= f && f <= l && l <= len(old(r.msg.Options)) && len(r.msg.Options) == f + 1 + (len(old(r.msg.Options)) - l)
//@   ensures [before] forall i int :: {r.msg.Options[i].ID} 0 <= i && i < f ==> r.msg.Options[i] == old(r.msg.Options[i])
//@   ensures [set] r.msg.Options[f].ID == opt && len(r.msg.Options[f].Value) == u32Len(value) && beU32(r.msg.Options[f].Value, u32Len(value)) == value
//@   ensures [after] forall i int :: {r.msg.Options[i].ID} f < i && i < len(r.msg.Options) ==> r.msg.Options[i] == old(r.msg.Options[i - f - 1 + l])
//@   ensures [clear] valuesClear(r.msg.Options, r.valueBuffer[0 : cap(r.valueBuffer)])
//@   ensures [values-kept] forall i int :: {old(r.msg.Options[i].ID)} 0 <= i && i < len(old(r.msg.Options)) ==> bytesEqOld(old(r.msg.Options[i].Value), old(r.msg.Options[i].Value))
//
//@ func (*Message) Remove(opt message.OptionID)
//@   requires r != nil && sortedOpts(r.msg.Options)
//@   modifies r.msg.Options, r.msg.Options[0 : len(r.msg.Options)], r.isModified
//@   ensures [modified] r.isModified
//@   ensures [gone] forall i int :: {r.msg.Options[i].ID} 0 <= i && i < len(r.msg.Options) ==> r.msg.Options[i].ID != opt
//
//@ func (*Message) SetBody(s io.ReadSeeker)
//@   requires r != nil
//@   modifies r.body, r.isModified
//@   ensures [set] r.isModified
//
//@ func (*Message) SetContentFormat(contentFormat message.MediaType)
//@   inline
//
// Assumed (not yet verified) frame of the pooled ResetOptionsTo: it only touches the message.
//@ func (*Message) ResetOptionsTo(in message.Options)
//@   trusted
//@   requires r != nil
//@   modifies r.msg.Options, r.msg.Options[0 : cap(r.msg.Options)], r.valueBuffer, r.valueBuffer[0 : cap(r.valueBuffer)], r.isModified
//@   ensures sortedOpts(r.msg.Options) && valuesClear(r.msg.Options, r.valueBuffer[0 : cap(r.valueBuffer)]) && len(r.msg.Options) == len(in)
//@   ensures (r.msg.Options[0:0] == old(r.msg.Options[0:0]) && cap(r.msg.Options) == old(cap(r.msg.Options))) || fresh(r.msg.Options)
//@   ensures fresh(r.valueBuffer) || (r.valueBuffer.obj == old(r.valueBuffer.obj) && r.valueBuffer.off >= old(r.valueBuffer.off) && r.valueBuffer.off + cap(r.valueBuffer) == old(r.valueBuffer.off + cap(r.valueBuffer)))
//@   ensures len(in) > 0 ==> r.isModified
//@   ensures len(in) == 0 ==> r.isModified == old(r.isModified)

// ---- header field accessors (used by C05/C06 contracts of the datagram connection) ----------------
//
//@ func (*Message) SetMessageID(mid int32)
//@   requires r != nil
//@   modifies r.msg.MessageID, r.isModified
//@   ensures [set] r.msg.MessageID == mid && r.isModified
//
//@ func (*Message) MessageID() (m int32)
//@   requires r != nil
//@   ensures [get] m == r.msg.MessageID
//
//@ func (*Message) SetType(typ message.Type)
//@   requires r != nil
//@   modifies r.msg.Type, r.isModified
//@   ensures [set] r.msg.Type == typ && r.isModified
//
//@ func (*Message) Type() (t message.Type)
//@   requires r != nil
//@   ensures [get] t == r.msg.Type
//
//@ func (*Message) SetModified(b bool)
//@   requires r != nil
//@   modifies r.isModified
//@   ensures [set] r.isModified == b
//
//@ func (*Message) SetToken(token message.Token)
//@   requires r != nil
//@   modifies r.msg.Token, r.msg.Token[0 : cap(r.msg.Token)]
//@   ensures [nil] token == nil ==> r.msg.Token == nil
//@   ensures [len] len(r.msg.Token) == len(token)
//
// Assumed contracts (unverified here; decoding is C01/C02):
//
//@ func (*Message) UnmarshalWithDecoder(decoder Decoder, data []byte) (n int, err error)
//@   trusted
//@   requires r != nil
//@   modifies *r
//
//@ func (*Message) SetControlMessage(cm *net.ControlMessage)
//@   trusted
//@   requires r != nil
//@   modifies r.controlMessage
//
//@ func (*Message) SetSequence(seq uint64)
//@   trusted
//@   requires r != nil
//@   modifies r.sequence
//
//@ func (*Message) Context() (c context.Context)
//@   requires r != nil
//@   ensures [get] c == r.ctx
//
//@ func (*Message) Observe() (v uint32, err error)
//@   trusted
//@   requires r != nil
//
//@ func (*Message) Token() (t message.Token)
//@   trusted
//@   requires r != nil
//@   ensures len(t) == len(r.msg.Token) && (len(t) > 0 ==> fresh(t))
//
//@ func (*Message) ETag() (v []byte, err error)
//@   trusted
//@   requires r != nil
//
//@ func (*Message) HasOption(id message.OptionID) (b bool)
//@   trusted
//@   requires r != nil
//
//@ func (*Message) SetObserve(observe uint32)
//@   trusted
//@   requires r != nil
//@   modifies *r
//
//@ func (*Message) SetPath(p string) (err error)
//@   trusted
//@   requires r != nil
//@   modifies *r
//
//@ func (*Message) SetETag(value []byte) (err error)
//@   trusted
//@   requires r != nil
//@   modifies *r
