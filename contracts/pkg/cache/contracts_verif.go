//go:build verif

// Contracts for package cache (checked by /verif/govc; comment-only, compiled only with -tags verif).
package cache

//@ immutable Cache.Map
//
// ---- C14: expiring cache --------------------------------------------------------------------------
//
// An element is expired at `now` iff it has a deadline (non-zero) that lies strictly before now.
//
//@ spec expiredAt(vu int, now int) bool = vu != 0 && now > vu
//
//@ func (*Element) IsExpired(now time.Time) (r bool)
//@   requires e != nil
//@   ensures [deadline] r <==> expiredAt(atomicLoad(e.ValidUntil), now)
//
//@ func (*Element) Data() (d D)
//@   requires e != nil
//@   ensures [get] d == e.data
//
// LoadOrStore is store-if-absent where an expired entry counts as absent; it is one atomic step
// on the underlying map (executed in place: sync.Map.ReplaceWithFunc with its callback).
// t is the instant the function read from the clock.
//
//@ func (*Cache) LoadOrStore(key K, e *Element) (actual *Element, loaded bool)
//@   requires c != nil && c.Map != nil && e != nil
//@   inline-call ReplaceWithFunc
//@   witness t = now
//@   lockinv [no-nil-elements] forall k int :: {present(c.Map.data, k)} present(c.Map.data, k) ==> c.Map.data[k] != nil
//@   cs-pure mapUnchanged(c.Map.data)
//@   atomic [live] old(present(c.Map.data, key)) && old(c.Map.data[key]) != nil && old(c.Map.data[key]) != e && !expiredAt(old(atomicLoad(c.Map.data[key].ValidUntil)), t) ==> loaded && actual == old(c.Map.data[key]) && mapUnchanged(c.Map.data)
//@   atomic [absent] !old(present(c.Map.data, key)) ==> !loaded && actual == e && mapIsStore(c.Map.data, key, e)
//@   atomic [touches-only-key] mapUnchanged(c.Map.data) || mapIsStore(c.Map.data, key, e)
//@   atomic [result] actual != nil && (!loaded ==> actual == e)
//@   atomic [expired] old(present(c.Map.data, key)) && old(c.Map.data[key]) != nil && expiredAt(old(atomicLoad(c.Map.data[key].ValidUntil)), t) ==> !loaded && actual == e && mapIsStore(c.Map.data, key, e)
//
// Load: an atomic read of the map followed by an expiry test; an expired entry reads as absent.
//
//@ func (*Cache) Load(key K) (actual *Element)
//@   requires c != nil && c.Map != nil
//@   inline-call Load
//@   lockinv [no-nil-elements] forall k int :: {present(c.Map.data, k)} present(c.Map.data, k) ==> c.Map.data[k] != nil
//@   cs-pure mapUnchanged(c.Map.data)
//@   atomic [effect] mapUnchanged(c.Map.data)
//@   atomic [result] actual != nil ==> old(present(c.Map.data, key)) && actual == old(c.Map.data[key])
//@   atomic [absent] !old(present(c.Map.data, key)) ==> actual == nil
//
// The sweep callback: whatever it removes from the map must be expired at `now`.
//
//@ func (*Cache) CheckExpirations$1(key K, value *Element) (cont bool)
//@   requires c != nil && c.Map != nil && value != nil
//@   opaque-calls pure
//@   inline-call ReplaceWithFunc
//@   lockinv [no-nil-elements] forall k int :: {present(c.Map.data, k)} present(c.Map.data, k) ==> c.Map.data[k] != nil
//@   cs-pure mapUnchanged(c.Map.data)
//@   atomic [removes-only-expired] mapUnchanged(c.Map.data) || !old(present(c.Map.data, key)) || (old(c.Map.data[key]) == value && expiredAt(old(atomicLoad(c.Map.data[key].ValidUntil)), now))
//@   atomic [touches-only-key] mapUnchanged(c.Map.data) || mapIsDelete(c.Map.data, key)
//@   atomic [removes-expired] old(present(c.Map.data, key)) && old(c.Map.data[key]) == value && expiredAt(old(atomicLoad(c.Map.data[key].ValidUntil)), now) ==> mapIsDelete(c.Map.data, key)
//@   ensures [sweeps-on] cont
//@   ensures [expiry-callback-iff-expired] called(onExpire) <==> expiredAt(old(atomicLoad(value.ValidUntil)), now)
//
// Constructors: a new element carries exactly the data, deadline and expiry callback it was given
// (a nil callback becomes some non-nil do-nothing function); a new cache owns a fresh, non-nil map.
//
//@ func NewElement(data D, validUntil time.Time, onExpire func(d D)) (e *Element)
//@   ensures [fresh] e != nil && fresh(e)
//@   ensures [carries] e.data == data && atomicLoad(e.ValidUntil) == validUntil
//@   ensures [callback] e.onExpire != nil && (onExpire != nil ==> e.onExpire == onExpire)
//
//@ func NewCache() (c *Cache)
//@   ensures [fresh] c != nil && fresh(c) && c.Map != nil && fresh(c.Map)
