//go:build verif

// Contracts for package sync (checked by /verif/govc; comment-only, compiled only with -tags verif).
package sync

// ---- C14: every Map operation is one atomic step on the abstract map --------------------------------
//
// The abstract state is the Go map m.data. It is guarded by m.mutex: acquiring the mutex forgets
// everything known about it (other goroutines may have run). Each method must perform its
// abstract effect inside ONE critical section (the last one of the call); critical sections before
// it must not change the map (cs-pure). `old(...)` in an atomic clause is the state at the start
// of that critical section, the plain expression the state at its end.
//
//@ guarded Map.data by Map.mutex
//
// The field m.data itself is assigned only by NewMap: every method works on the one map object in place
// (LoadAndDeleteAll empties it and hands out a copy). What an acquire forgets is the contents of that
// map, not which map it is - an iteration that releases the lock between elements (Range) relies on this.
//
//@ immutable Map.data
//
//@ func (*Map) Store(key K, value V)
//@   requires m != nil
//@   cs-pure mapUnchanged(m.data)
//@   atomic [effect] mapIsStore(m.data, key, value)
//
//@ func (*Map) Load(key K) (v V, ok bool)
//@   requires m != nil
//@   cs-pure mapUnchanged(m.data)
//@   atomic [effect] mapUnchanged(m.data)
//@   atomic [result] ok == old(present(m.data, key)) && (ok ==> v == old(m.data[key]))
//
//@ func (*Map) LoadOrStore(key K, value V) (actual V, loaded bool)
//@   requires m != nil
//@   cs-pure mapUnchanged(m.data)
//@   atomic [present] old(present(m.data, key)) ==> loaded && actual == old(m.data[key]) && mapUnchanged(m.data)
//@   atomic [absent] !old(present(m.data, key)) ==> !loaded && actual == value && mapIsStore(m.data, key, value)
//
//@ func (*Map) Replace(key K, value V) (oldValue V, oldLoaded bool)
//@   requires m != nil
//@   cs-pure mapUnchanged(m.data)
//@   atomic [effect] mapIsStore(m.data, key, value)
//@   atomic [result] oldLoaded == old(present(m.data, key)) && (oldLoaded ==> oldValue == old(m.data[key]))
//
//@ func (*Map) Delete(key K)
//@   requires m != nil
//@   cs-pure mapUnchanged(m.data)
//@   atomic [effect] mapIsDelete(m.data, key)
//
//@ func (*Map) LoadAndDelete(key K) (v V, ok bool)
//@   requires m != nil
//@   cs-pure mapUnchanged(m.data)
//@   atomic [effect] mapIsDelete(m.data, key)
//@   atomic [result] ok == old(present(m.data, key)) && (ok ==> v == old(m.data[key]))
//
//@ func (*Map) CopyData() (c map[K]V)
//@   requires m != nil
//@   cs-pure mapUnchanged(m.data)
//@   atomic [read-only] mapUnchanged(m.data)
//@   atomic [snapshot-keys] forall k int :: {present(c, k)} present(c, k) <==> present(m.data, k)
//@   atomic [snapshot-values] forall k int :: {present(c, k)} present(m.data, k) ==> c[k] == m.data[k]
//@   ensures [own-copy] fresh(c)
//
//@ func (*Map) Length() (n int)
//@   requires m != nil
//@   cs-pure mapUnchanged(m.data)
//@   atomic [effect] mapUnchanged(m.data)
//@   atomic [result] n == old(len(m.data))
//
// Variants with callbacks: the callback runs inside the critical section, on the value that is in the
// map at that instant, and its result is what is stored / returned.
//
//@ func (*Map) StoreWithFunc(key K, createFunc func() V)
//@   requires m != nil
//@   param createFunc:
//@   cs-pure mapUnchanged(m.data)
//@   atomic [effect] callCount(createFunc) == 1 && mapIsStore(m.data, key, callRes(createFunc, 0, 0))
//
//@ func (*Map) LoadWithFunc(key K, onLoadFunc func(value V) V) (v V, ok bool)
//@   requires m != nil
//@   param onLoadFunc:
//@   cs-pure mapUnchanged(m.data)
//@   atomic [effect] mapUnchanged(m.data) && ok == old(present(m.data, key))
//@   atomic [callback] ok && onLoadFunc != nil ==> callCount(onLoadFunc) == 1 && callArg(onLoadFunc, 0, 0) == old(m.data[key]) && v == callRes(onLoadFunc, 0, 0)
//@   atomic [no-callback] !(ok && onLoadFunc != nil) ==> callCount(onLoadFunc) == 0 && (ok ==> v == old(m.data[key]))
//
//@ func (*Map) LoadOrStoreWithFunc(key K, onLoadFunc func(value V) V, createFunc func() V) (actual V, loaded bool)
//@   requires m != nil
//@   param onLoadFunc:
//@   param createFunc:
//@   cs-pure mapUnchanged(m.data)
//@   atomic [present] old(present(m.data, key)) ==> loaded && mapUnchanged(m.data) && callCount(createFunc) == 0 && (onLoadFunc != nil ==> callCount(onLoadFunc) == 1 && callArg(onLoadFunc, 0, 0) == old(m.data[key]) && actual == callRes(onLoadFunc, 0, 0)) && (onLoadFunc == nil ==> actual == old(m.data[key]))
//@   atomic [absent] !old(present(m.data, key)) ==> !loaded && callCount(createFunc) == 1 && callCount(onLoadFunc) == 0 && actual == callRes(createFunc, 0, 0) && mapIsStore(m.data, key, actual)
//
//@ func (*Map) ReplaceWithFunc(key K, onReplaceFunc func(oldValue V, oldLoaded bool) (newValue V, doDelete bool)) (oldValue V, oldLoaded bool)
//@   requires m != nil
//@   param onReplaceFunc:
//@   cs-pure mapUnchanged(m.data)
//@   atomic [callback] callCount(onReplaceFunc) == 1 && callArg(onReplaceFunc, 0, 1) == old(present(m.data, key)) && (old(present(m.data, key)) ==> callArg(onReplaceFunc, 0, 0) == old(m.data[key]))
//@   atomic [result] oldLoaded == old(present(m.data, key)) && (oldLoaded ==> oldValue == old(m.data[key]))
//@   atomic [delete] callRes(onReplaceFunc, 0, 1) ==> mapIsDelete(m.data, key)
//@   atomic [store] !callRes(onReplaceFunc, 0, 1) ==> mapIsStore(m.data, key, callRes(onReplaceFunc, 0, 0))
//
// LoadAndDeleteAll: the result is the call's own fresh map holding exactly the entries the map has at the
// instant it is emptied; the map object of m stays the same one (it is emptied in place).
//
//@ func (*Map) LoadAndDeleteAll() (r map[K]V)
//@   requires m != nil
//@   cs-pure mapUnchanged(m.data)
//@   atomic [emptied] forall k int :: !present(m.data, k)
//@   atomic [same-map] m.data == old(m.data)
//@   atomic [result-keys] forall k int :: {present(r, k)} present(r, k) <==> old(present(m.data, k))
//@   atomic [result-values] forall k int :: {present(r, k)} old(present(m.data, k)) ==> r[k] == old(m.data[k])
//@   ensures [own-copy] fresh(r)
//
//@ func (*Map) LoadAndDeleteWithFunc(key K, onLoadFunc func(value V) V) (v V, ok bool)
//@   requires m != nil
//@   param onLoadFunc:
//@   inline-call ReplaceWithFunc
//@   cs-pure mapUnchanged(m.data)
//@   atomic [effect] mapIsDelete(m.data, key) && ok == old(present(m.data, key))
//@   atomic [present] ok ==> callCount(onLoadFunc) == 1 && callArg(onLoadFunc, 0, 0) == old(m.data[key]) && v == callRes(onLoadFunc, 0, 0)
//@   atomic [absent] !ok ==> callCount(onLoadFunc) == 0
//
//@ func (*Map) DeleteWithFunc(key K, onDeleteFunc func(value V))
//@   requires m != nil
//@   param onDeleteFunc:
//@   inline-call ReplaceWithFunc, LoadAndDeleteWithFunc
//@   cs-pure mapUnchanged(m.data)
//@   atomic [effect] mapIsDelete(m.data, key)
//@   atomic [callback] (old(present(m.data, key)) ==> callCount(onDeleteFunc) == 1 && callArg(onDeleteFunc, 0, 0) == old(m.data[key])) && (!old(present(m.data, key)) ==> callCount(onDeleteFunc) == 0)
//
//@ func NewMap() (m *Map)
//@   ensures [fresh] m != nil && fresh(m)
//
// Range2 / Range: the callback only ever sees entries of the map - a key that is present with the value
// stored under it at that instant (Range2: inside the one critical section that spans the whole
// iteration; Range: inside the critical section in which the entry was fetched, the lock is released
// while the callback runs); the map itself is not modified. (That an iteration yields each key at most
// once is part of the assumed semantics of Go's map iteration.)
//
//@ func (*Map) Range2(f func(key K, value V) bool)
//@   requires m != nil
//@   cs-pure mapUnchanged(m.data)
//@   atomic [read-only] mapUnchanged(m.data)
//@   loop 0:
//@     invariant [seen-present] forall j int :: {visited(j)} visited(j) ==> present(m.data, j)
//@   param f:
//@     requires [entry-of-the-map] present(m.data, key) && value == m.data[key]
//
//@ func (*Map) Range(f func(key K, value V) bool)
//@   requires m != nil
//@   cs-pure mapUnchanged(m.data)
//@   atomic [read-only] mapUnchanged(m.data)
//@   loop 0:
//@     invariant [locked-at-head] true
//@   param f:
//@     requires [entry-of-the-map] present(m.data, key) && value == m.data[key]
