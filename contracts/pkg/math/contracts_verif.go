//go:build verif

// Contracts for package math (checked by /verif/govc; comment-only, compiled only with -tags verif).
package math

// CastTo is a plain conversion; callers execute its (instantiated) body in place.
//
//@ func CastTo(from F) (r T)
//@   inline
