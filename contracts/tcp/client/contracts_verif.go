//go:build verif

// Contracts for package client (stream connection; checked by /verif/govc; comment-only, compiled only with -tags verif).
package client

//@ immutable Conn.tokenHandlerContainer
//@ immutable Conn.observationHandler
//@ immutable Conn.session
//@ immutable Conn.receivedMessageReader
//
// ---- C03: a response reaches exactly the request that carries its token (stream transports) --------
//
// Same protocol as on datagram connections: registration under the hash of the token, refusal of a
// token that is still outstanding, removal when the call returns, one-shot dispatch by the incoming
// message's own token.
//
// Assumed contracts (unverified surroundings):
//
//@ func (*Session) WriteMessage(req *pool.Message) (err error)
//@   trusted
//
//@ func (*Session) Context() (c context.Context)
//@   trusted
//
//@ func (*Conn) Context() (c context.Context)
//@   trusted
//
//@ func (*Conn) Session() (s *Session)
//@   trusted
//@   ensures s != nil
//
//@ func (*Conn) doInternal$1(w *responsewriter.ResponseWriter, r *pool.Message)
//@   requires r != nil
//@   modifies anything
//@   ensures [keeps-response] callCount(Hijack) == 1 && callArg(Hijack, 0, 0) == r
//@   ensures [offers-it] callCount(select) == 1 && callSeq(Hijack, 0) < callSeq(select, 0)
//
//@ func (*Conn) doInternal(req *pool.Message) (resp *pool.Message, err error)
//@   requires cc != nil && req != nil && cc.tokenHandlerContainer != nil && cc.session != nil && cc.receivedMessageReader != nil
//@   modifies anything
//@   opaque-calls pure
//@   signal-channels
//@   ensures [registers-at-most-once] callCount(LoadOrStore) <= 1
//@   ensures [no-token-refused] notCalled(LoadOrStore) ==> err != nil && notCalled(WriteMessage)
//@   ensures [outstanding-token-refused] called(LoadOrStore) && callRes(LoadOrStore, 0, 1) ==> err != nil && notCalled(WriteMessage) && notCalled(LoadAndDelete)
//@   ensures [registration-removed] called(LoadOrStore) && !callRes(LoadOrStore, 0, 1) ==> callCount(LoadAndDelete) == 1 && callArg(LoadAndDelete, 0, 0) == callArg(LoadOrStore, 0, 0)
//@   ensures [sent-after-registration] called(WriteMessage) ==> callSeq(LoadOrStore, 0) < callSeq(WriteMessage, 0) && callArg(WriteMessage, 0, 1) == req && callSeq(WriteMessage, 0) < callSeq(LoadAndDelete, 0)
//@   ensures [own-response] called(select) && err == nil ==> callRes(select, 0, 0) == 2 && resp == callRes(select, 0, 4)
//@   ensures [exclusive-result] err != nil ==> resp == nil
//
//@ func (*Conn) handle(w *responsewriter.ResponseWriter, r *pool.Message)
//@   requires cc != nil && r != nil && cc.tokenHandlerContainer != nil && cc.observationHandler != nil && cc.observationHandler.observations != nil
//@   modifies anything
//@   opaque-calls pure
//@   ensures [keeps-writer] w != nil ==> w.response == old(w.response)
//@   ensures [one-shot-by-own-token] notCalled(Handle) || called(LoadAndDelete) ==> callCount(LoadAndDelete) == 1 && callCount(Token) == 1 && callArg(Token, 0, 0) == r && callCount(Hash) == 1 && callArg(Hash, 0, 0) == callRes(Token, 0, 0) && callArg(LoadAndDelete, 0, 1) == callRes(Hash, 0, 0)
//@   ensures [to-its-continuation] called(LoadAndDelete) && callRes(LoadAndDelete, 0, 1) ==> callCount(opaque) == 1 && callFn(opaque, 0) == callRes(LoadAndDelete, 0, 0) && callArg(opaque, 0, 0) == w && callArg(opaque, 0, 1) == r && notCalled(Handle)
//@   ensures [else-observations] called(LoadAndDelete) && !callRes(LoadAndDelete, 0, 1) ==> notCalled(opaque) && callCount(Handle) == 1 && callArg(Handle, 0, 1) == w && callArg(Handle, 0, 2) == r
//
// ---- C07: the stream session re-frames whatever the reads deliver ---------------------------------------
//
// shrinkBufferIfNecessary (called by Run after every pass over the buffer) may swap an EMPTY buffer whose
// array has grown beyond the cache size for a fresh small one; the unread bytes are the same afterwards -
// none are lost and none appear (seed C07c-1 handed back a buffer that started with cache-size zero bytes,
// which were then parsed as frames nobody sent).
//
//@ func shrinkBufferIfNecessary(buffer *bytes.Buffer, maxCap uint16) (out *bytes.Buffer)
//@   requires bufOK(buffer)
//@   ensures [unread-bytes-kept] bufOK(out) && len(out.buf) - out.off == old(len(buffer.buf) - buffer.off)
//@   ensures [same-buffer-unless-empty] old(len(buffer.buf) - buffer.off) > 0 ==> out == buffer
//@   ensures [buffer-untouched] out == buffer ==> buffer.buf == old(buffer.buf) && buffer.off == old(buffer.off)
//
// seekBufferToNextMessage consumes exactly msgSize bytes of the buffer (the rest stays, in place).
//
//@ immutable Session.maxMessageSize
//@ immutable Session.messagePool
//@ immutable Session.inactivityMonitor
//
//@ func seekBufferToNextMessage(buffer *bytes.Buffer, msgSize int) (out *bytes.Buffer)
//@   requires bufOK(buffer) && 0 <= msgSize && msgSize <= len(buffer.buf) - buffer.off
//@   modifies buffer.buf, buffer.off, buffer.lastRead
//@   ensures [same-buffer] out == buffer && bufOK(buffer)
//@   ensures [consumes-exactly] len(buffer.buf) - buffer.off == old(len(buffer.buf) - buffer.off) - msgSize
//@   ensures [rest-in-place] old(len(buffer.buf) - buffer.off) > msgSize ==> buffer.buf == old(buffer.buf) && buffer.off == old(buffer.off) + msgSize
//@   loop 0:
//@     modifies buffer.buf, buffer.off, buffer.lastRead
//@     invariant [progress] 0 <= trimmed && trimmed <= msgSize && bufOK(buffer)
//@     invariant [consumed] len(buffer.buf) - buffer.off == old(len(buffer.buf) - buffer.off) - trimmed
//@     invariant [in-place] buffer.buf == old(buffer.buf) && buffer.off == old(buffer.off) + trimmed
//@     decreases msgSize - trimmed
//
// processBuffer: a frame is looked at only through its header until it is complete; a header that
// declares more than the maximum message size ends the connection with an error as soon as it is seen
// - whether or not the body has arrived - and nothing of that frame is decoded or delivered; a complete
// frame is decoded from exactly MessageLength bytes and exactly those bytes are consumed.
//
//@ func (*Session) Sequence() (n uint64)
//@   trusted
//
//@ func (*Conn) pushToReceivedMessageQueue(req *pool.Message)
//@   trusted
//
//@ func (InactivityMonitor) Notify()
//@   trusted
//
//@ func (*Session) processBuffer(buffer *bytes.Buffer, cc *Conn) (err error)
//@   requires s != nil && bufOK(buffer) && s.messagePool != nil
//@   modifies anything
//@   opaque-calls pure
//@   witness ml = header.MessageLength
//@   ensures [oversized-refused-at-once] called(DecodeHeader) && !errors.Is(callRes(DecodeHeader, 0, 1), message.ErrShortRead) && ml > s.maxMessageSize ==> err != nil && notCalled(UnmarshalWithDecoder) && notCalled(pushToReceivedMessageQueue)
//@   ensures [incomplete-waits] err == nil && called(DecodeHeader) && !called(UnmarshalWithDecoder) && !errors.Is(callRes(DecodeHeader, 0, 1), message.ErrShortRead) ==> ml <= s.maxMessageSize
//@   ensures [decodes-whole-frame] called(UnmarshalWithDecoder) ==> len(callArg(UnmarshalWithDecoder, 0, 2)) == ml && ml <= s.maxMessageSize
//@   ensures [delivered-only-decoded] called(pushToReceivedMessageQueue) ==> callRes(UnmarshalWithDecoder, 0, 1) == nil && callArg(pushToReceivedMessageQueue, 0, 1) == callArg(UnmarshalWithDecoder, 0, 0) && called(Notify)
//@   loop 0:
//@     modifies buffer.buf, buffer.off, buffer.lastRead
//@     invariant [buffer-ok] bufOK(buffer)
//
// ---- C12: ownership of the request and the response message while one request is processed -------------
//
// The handler may replace the response message of the writer (SetMessage / Swap): what is sent and what
// is released afterwards is the message the writer holds when the handler has returned.
//
//@ func (*Conn) AcquireMessage(ctx context.Context) (m *pool.Message)
//@   trusted
//@   ensures m != nil && fresh(m) && len(m.msg.Options) == 0
//
//@ func (*Conn) ReleaseMessage(m *pool.Message)
//@   trusted
//
//@ func (*Conn) Close() (err error)
//@   trusted
//
//@ func (*Conn) RemoteAddr() (a net.Addr)
//@   trusted
//
//@ func (*Conn) ProcessReceivedMessageWithHandler(req *pool.Message, handler HandlerFunc)
//@   requires cc != nil && req != nil && sortedOpts(req.msg.Options)
//@   modifies anything
//@   opaque-calls pure
//@   ensures [response-acquired-once] callCount(AcquireMessage) == 1
//@   ensures [handler-once] callCount(handler) == 1 && callArg(handler, 0, 1) == req && callSeq(AcquireMessage, 0) < callSeq(handler, 0)
//@   ensures [request-released-once-unless-hijacked] callCount(IsHijacked) == 1 && callArg(IsHijacked, 0, 0) == req && callSeq(handler, 0) < callSeq(IsHijacked, 0) && (callRes(IsHijacked, 0, 0) ==> callCount(ReleaseMessage) == 1) && (!callRes(IsHijacked, 0, 0) ==> callCount(ReleaseMessage) == 2 && callArg(ReleaseMessage, 0, 1) == req)
//@   ensures [response-released-last] callArg(ReleaseMessage, callCount(ReleaseMessage) - 1, 1) == callRes(Message, callCount(Message) - 1, 0) && callSeq(ReleaseMessage, callCount(ReleaseMessage) - 1) == callsTotal() - 1
//@   ensures [sent-before-release] called(WriteMessage) ==> callArg(WriteMessage, 0, 1) == callRes(Message, callCount(Message) - 1, 0)
//@   param handler:
//@     modifies a0.response
//@     ensures a0.response != nil

// ---- C13 / C03: signal messages (stream transports) -------------------------------------------------------
//
// A Pong consumes the continuation of the ping it answers: the entry is taken OUT of the token table
// (one-shot, like every response), not just looked up - nothing sweeps this table, so an entry left
// behind by an answered ping would stay for the life of the connection (seed C13c-1 used Load). No other
// signal touches the token table; every signal message is consumed here (never queued as a request).
//
//@ func (*Conn) sendPong(token message.Token) (err error)
//@   trusted
//@   modifies anything
//
//@ func (*Conn) handleTCPSignalReceived(code codes.Code)
//@   trusted
//@   modifies anything
//
//@ func (*Conn) handleSignals(r *pool.Message) (consumed bool)
//@   requires cc != nil && r != nil && cc.tokenHandlerContainer != nil
//@   modifies anything
//@   opaque-calls pure
//@   ensures [signals-are-consumed] consumed <==> (callRes(Code, 0, 0) == 225 || callRes(Code, 0, 0) == 226 || callRes(Code, 0, 0) == 227 || callRes(Code, 0, 0) == 228 || callRes(Code, 0, 0) == 229)
//@   ensures [pong-takes-its-continuation-out] callRes(Code, 0, 0) == 227 ==> callCount(LoadAndDelete) == 1 && notCalled(Load)
//@   ensures [pong-runs-it-once] callRes(Code, 0, 0) == 227 && callRes(LoadAndDelete, 0, 1) ==> callCount(processReceivedMessage) == 1 && callArg(processReceivedMessage, 0, 0) == r
//@   ensures [message-not-read-after-it-was-handed-over] called(processReceivedMessage) ==> callSeq(Code, callCount(Code) - 1) < callSeq(processReceivedMessage, 0) && notCalled(GetOptionUint32) && notCalled(HasOption)
//@   ensures [signal-reported-by-its-code] callCount(handleTCPSignalReceived) <= 1 && (called(handleTCPSignalReceived) ==> callArg(handleTCPSignalReceived, 0, 1) == callRes(Code, 0, 0))
//@   ensures [other-signals-leave-the-table-alone] callRes(Code, 0, 0) != 227 ==> notCalled(LoadAndDelete) && notCalled(Load) && notCalled(Delete) && notCalled(Store) && notCalled(processReceivedMessage)
