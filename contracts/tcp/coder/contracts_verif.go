//go:build verif

// Contracts for package coder (TCP/TLS framing, RFC 8323 section 3.2; checked by /verif/govc; compiled only with -tags verif).
// The ghost functions at the end compose the Encode and Decode contracts into the round-trip theorem.
package coder

import "github.com/plgd-dev/go-coap/v3/message"

// ---- frame layout ---------------------------------------------------------------------------------
//
//   byte 0: Len(4) | TKL(4)   extended length (0/1/2/4 bytes)   Code   Token (TKL bytes)   options  [0xFF payload]
//   Len 0-12: length = Len; 13: ext+13 (1 byte); 14: ext+269 (2 bytes); 15: ext+65805 (4 bytes)
//   "length" counts options + payload marker + payload.
//
//@ spec lenNib(n int) int = ite(n < 13, n, ite(n < 269, 13, ite(n < 65805, 14, 15)))
//@ spec extLen(n int) int = ite(n < 13, 0, ite(n < 269, 1, ite(n < 65805, 2, 4)))
//@ spec extBase(n int) int = ite(n < 13, 0, ite(n < 269, 13, ite(n < 65805, 269, 65805)))
//@ spec extBytesOf(nib int) int = ite(nib < 13, 0, ite(nib == 13, 1, ite(nib == 14, 2, 4)))
//@ spec beVal(b []byte, p int, n int) int = ite(n == 0, 0, ite(n == 1, b[p], ite(n == 2, 256*b[p] + b[p+1], 16777216*b[p] + 65536*b[p+1] + 256*b[p+2] + b[p+3])))
//@ spec tcpBody(m message.Message) int = encLen(m.Options, len(m.Options)) + ite(len(m.Payload) > 0, 1 + len(m.Payload), 0)
//@ spec tcpSize(m message.Message) int = 1 + extLen(tcpBody(m)) + 1 + len(m.Token) + tcpBody(m)
//@ spec srcDisjoint(b []byte, m message.Message) bool = disjoint(b, m.Token) && disjoint(b, m.Payload) && valuesDisjoint(b, m.Options)
//
//@ func getHeader(messageLength int) (nib uint8, ext []byte)
//@   requires 0 <= messageLength && messageLength < 2147418112
//@   ensures [nibble] nib == lenNib(messageLength)
//@   ensures [ext-len] len(ext) == extLen(messageLength) && (extLen(messageLength) == 0 ==> ext == nil)
//@   ensures [ext-val] extLen(messageLength) > 0 ==> beVal(ext, 0, extLen(messageLength)) == messageLength - extBase(messageLength)
//@   ensures [fresh] len(ext) > 0 ==> fresh(ext)
//
//@ func (*Coder) Encode(m message.Message, buf []byte) (n int, err error)
//@   requires wfOptions(m.Options) && m.Code <= 255 && len(m.Payload) < 2000000000 && len(m.Options) <= 1000
//@   requires srcDisjoint(buf, m)
//@   modifies buf[0 : len(buf)]
//@   ensures [refuses] len(m.Token) > 8 ==> err == message.ErrInvalidTokenLen && n == -1
//@   ensures [too-small] len(m.Token) <= 8 && len(buf) < tcpSize(m) ==> err == message.ErrTooSmall && n == tcpSize(m)
//@   ensures [ok] len(m.Token) <= 8 && len(buf) >= tcpSize(m) ==> err == nil && n == tcpSize(m)
//@   ensures [unchanged-on-error] err != nil ==> bytesEqOld(buf, buf)
//@   ensures [size-bound] len(m.Token) <= 8 ==> 0 <= encLen(m.Options, len(m.Options)) && encLen(m.Options, len(m.Options)) <= 65809 * len(m.Options)
//@   ensures [header] err == nil ==> buf[0] == 16*lenNib(tcpBody(m)) + len(m.Token) && (extLen(tcpBody(m)) > 0 ==> beVal(buf, 1, extLen(tcpBody(m))) == tcpBody(m) - extBase(tcpBody(m))) && buf[1 + extLen(tcpBody(m))] == m.Code
//@   ensures [values-unchanged] forall j int :: {m.Options[j].ID} 0 <= j && j < len(m.Options) ==> bytesEqOld(m.Options[j].Value, m.Options[j].Value)
//@   ensures [options] err == nil ==> optsAt(buf[1 + extLen(tcpBody(m)) + len(m.Token) + 1 : ], m.Options)
//@   ensures [token-now] err == nil ==> bytesEq(buf[1 + extLen(tcpBody(m)) + 1 : 1 + extLen(tcpBody(m)) + 1 + len(m.Token)], m.Token)
//@   ensures [options-now] err == nil ==> optsAtNow(buf[1 + extLen(tcpBody(m)) + len(m.Token) + 1 : ], m.Options)
//@   ensures [payload-now] err == nil && len(m.Payload) > 0 ==> buf[n - len(m.Payload) - 1] == 255 && bytesEq(buf[n - len(m.Payload) : n], m.Payload)
//
//@ func (*Coder) Size(m message.Message) (n int, err error)
//@   requires wfOptions(m.Options) && m.Code <= 255 && len(m.Payload) < 2000000000 && len(m.Options) <= 1000
//@   ensures [refuses] len(m.Token) > 8 ==> err != nil && n == -1
//@   ensures [size] len(m.Token) <= 8 ==> err == nil && n == tcpSize(m)
//
// ---- stream header parsing (C02, C07) ----------------------------------------------------------------
//
// hdrLen(d): bytes of the frame header = 1 + extended length bytes + code + token;
// bodyLen(d): declared length of options + payload (mathematical integer, up to 65805 + 2^32 - 1).
//
//@ spec hdrLen(d []byte) int = 1 + extBytesOf(d[0] / 16) + 1 + d[0] % 16
//@ spec bodyLen(d []byte) int = ite(d[0] / 16 < 13, d[0] / 16, ite(d[0] / 16 == 13, 13 + d[1], ite(d[0] / 16 == 14, 269 + 256*d[1] + d[2], 65805 + 16777216*d[1] + 65536*d[2] + 256*d[3] + d[4])))
//
//@ func (*Coder) DecodeHeader(data []byte, h *MessageHeader) (n int, err error)
//@   requires h != nil
//@   modifies h.Token, h.Length, h.MessageLength, h.Code
//@   ensures [invalid-token] len(data) > 0 && data[0] % 16 > 8 ==> err == message.ErrInvalidTokenLen
//@   ensures [short-iff] len(data) == 0 || data[0] % 16 <= 8 ==> (errors.Is(err, message.ErrShortRead) <==> (len(data) == 0 || len(data) < 1 + extBytesOf(data[0] / 16) || (hdrLen(data) + bodyLen(data) <= 4294967295 && len(data) < hdrLen(data))))
//@   ensures [unrepresentable] len(data) >= 1 + extBytesOf(data[0] / 16) && data[0] % 16 <= 8 && hdrLen(data) + bodyLen(data) > 4294967295 ==> err == message.ErrInvalidEncoding
//@   ensures [token-err-only-if] err == message.ErrInvalidTokenLen ==> len(data) > 0 && data[0] % 16 > 8
//@   ensures [encoding-err-only-if] err == message.ErrInvalidEncoding ==> len(data) >= 1 + extBytesOf(data[0] / 16) && hdrLen(data) + bodyLen(data) > 4294967295
//@   ensures [err-kind] err != nil ==> err == message.ErrShortRead || err == message.ErrInvalidTokenLen || err == message.ErrInvalidEncoding
//@   ensures [n] (err == nil ==> n == hdrLen(data) && h.Length == hdrLen(data)) && (err != nil ==> n == -1)
//@   ensures [token-len] err == nil ==> data[0] % 16 <= 8
//@   ensures [length-exact] err == nil ==> h.MessageLength == hdrLen(data) + bodyLen(data)
//@   ensures [fields] err == nil ==> h.Code == data[1 + extBytesOf(data[0] / 16)] && (data[0] % 16 > 0 ==> h.Token == data[2 + extBytesOf(data[0] / 16) : hdrLen(data)]) && (data[0] % 16 == 0 ==> h.Token == old(h.Token))
//
// ---- stream decoding against the reference parser ------------------------------------------------
//
//@ spec tcpDefs(code int) map[message.OptionID]message.OptionDef = ite(code == 225, message.TCPSignalCSMOptionDefs, ite(code == 226 || code == 227, message.TCPSignalPingPongOptionDefs, ite(code == 228, message.TCPSignalReleaseOptionDefs, ite(code == 229, message.TCPSignalAbortOptionDefs, message.CoapOptionDefs))))
//
//@ func (*Coder) DecodeWithHeader(data []byte, header MessageHeader, m *message.Message) (n int, err error)
//@   requires m != nil && header.Length + len(data) < 4294967296
//@   modifies m.Options, m.Options[len(m.Options) : cap(m.Options)], m.Payload, m.Code, m.Token
//@   ensures [n] (err == nil ==> n == header.Length + len(data)) && (err != nil ==> n == -1)
//@   ensures [accepts] err == nil ==> exists K int :: {rawStart(data, K)} parsedOK(data, K) && decodedOpts(m.Options, len(old(m.Options)), data, tcpDefs(header.Code), K) && m.Payload == ite(consumedBy(data, K) < len(data), data[consumedBy(data, K) : ], old(m.Payload))
//@   ensures [rejects] err != nil && !errors.Is(err, message.ErrOptionsTooSmall) ==> exists K int :: {rawStart(data, K)} prefixOK(data, K) && !terminal(data, rawStart(data, K)) && !rawOK(data, K)
//@   ensures [too-small] errors.Is(err, message.ErrOptionsTooSmall) ==> exists K int :: {rawStart(data, K)} prefixOK(data, K) && rawOK(data, K) && cap(old(m.Options)) == len(old(m.Options)) + nKept(data, tcpDefs(header.Code), K)
//@   ensures [too-small-full] errors.Is(err, message.ErrOptionsTooSmall) ==> len(m.Options) == cap(m.Options) && cap(m.Options) == cap(old(m.Options))
//@   ensures [sorted] err == nil && len(old(m.Options)) == 0 ==> sortedOpts(m.Options)
//@   ensures [fields] err == nil ==> m.Code == header.Code && m.Token == header.Token
//@   ensures [unchanged-on-error] err != nil ==> m.Payload == old(m.Payload) && m.Code == old(m.Code) && m.Token == old(m.Token)
//
//@ spec tcpFrameOK(d []byte) bool = len(d) > 0 && d[0] % 16 <= 8 && len(d) >= hdrLen(d) && hdrLen(d) + bodyLen(d) <= 4294967295 && len(d) >= hdrLen(d) + bodyLen(d)
//
// Decode parses the FRAME the header declares (RFC 8323 section 3.2: Len is the size of the message) and
// reports its length as consumed; bytes that follow the frame in the buffer (the next frame of the
// stream) are not part of the message (D18: they were, before the repair).
//
//@ func (*Coder) Decode(data []byte, m *message.Message) (n int, err error)
//@   requires m != nil && len(data) < 4294967296
//@   modifies m.Options, m.Options[len(m.Options) : cap(m.Options)], m.Payload, m.Code, m.Token
//@   ensures [rejects-frame] !tcpFrameOK(data) ==> err != nil
//@   ensures [n] (err == nil ==> n == hdrLen(data) + bodyLen(data)) && (err != nil ==> n == -1)
//@   ensures [accepts] err == nil ==> tcpFrameOK(data) && exists K int :: {rawStart(data[hdrLen(data) : hdrLen(data) + bodyLen(data)], K)} parsedOK(data[hdrLen(data) : hdrLen(data) + bodyLen(data)], K) && decodedOpts(m.Options, len(old(m.Options)), data[hdrLen(data) : hdrLen(data) + bodyLen(data)], tcpDefs(data[1 + extBytesOf(data[0] / 16)]), K) && m.Payload == ite(consumedBy(data[hdrLen(data) : hdrLen(data) + bodyLen(data)], K) < len(data[hdrLen(data) : hdrLen(data) + bodyLen(data)]), data[hdrLen(data) : hdrLen(data) + bodyLen(data)][consumedBy(data[hdrLen(data) : hdrLen(data) + bodyLen(data)], K) : ], old(m.Payload))
//@   ensures [rejects] err != nil && !errors.Is(err, message.ErrOptionsTooSmall) && tcpFrameOK(data) ==> exists K int :: {rawStart(data[hdrLen(data) : hdrLen(data) + bodyLen(data)], K)} prefixOK(data[hdrLen(data) : hdrLen(data) + bodyLen(data)], K) && !terminal(data[hdrLen(data) : hdrLen(data) + bodyLen(data)], rawStart(data[hdrLen(data) : hdrLen(data) + bodyLen(data)], K)) && !rawOK(data[hdrLen(data) : hdrLen(data) + bodyLen(data)], K)
//@   ensures [too-small] errors.Is(err, message.ErrOptionsTooSmall) ==> tcpFrameOK(data) && exists K int :: {rawStart(data[hdrLen(data) : hdrLen(data) + bodyLen(data)], K)} prefixOK(data[hdrLen(data) : hdrLen(data) + bodyLen(data)], K) && rawOK(data[hdrLen(data) : hdrLen(data) + bodyLen(data)], K) && cap(old(m.Options)) == len(old(m.Options)) + nKept(data[hdrLen(data) : hdrLen(data) + bodyLen(data)], tcpDefs(data[1 + extBytesOf(data[0] / 16)]), K)
//@   ensures [too-small-full] errors.Is(err, message.ErrOptionsTooSmall) ==> len(m.Options) == cap(m.Options) && cap(m.Options) == cap(old(m.Options))
//@   ensures [sorted] err == nil && len(old(m.Options)) == 0 ==> sortedOpts(m.Options)
//@   ensures [fields] err == nil ==> m.Code == data[1 + extBytesOf(data[0] / 16)] && (data[0] % 16 > 0 ==> m.Token == data[2 + extBytesOf(data[0] / 16) : hdrLen(data)]) && (data[0] % 16 == 0 ==> m.Token == nil)
//@   hide accepts, rejects, too-small
//   (callers compose with the exact-frame forms below; the general forms above are proved, not handed on)
//   (the same three clauses once more for a buffer that holds exactly one frame, phrased over "the rest of
//   the buffer": this is the form the round-trip lemma below composes with)
//@   ensures [accepts-exact] len(data) == hdrLen(data) + bodyLen(data) ==> (err == nil ==> tcpFrameOK(data) && exists K int :: {rawStart(data[hdrLen(data) : ], K)} parsedOK(data[hdrLen(data) : ], K) && decodedOpts(m.Options, len(old(m.Options)), data[hdrLen(data) : ], tcpDefs(data[1 + extBytesOf(data[0] / 16)]), K) && m.Payload == ite(consumedBy(data[hdrLen(data) : ], K) < len(data[hdrLen(data) : ]), data[hdrLen(data) : ][consumedBy(data[hdrLen(data) : ], K) : ], old(m.Payload)))
//@   ensures [rejects-exact] len(data) == hdrLen(data) + bodyLen(data) ==> (err != nil && !errors.Is(err, message.ErrOptionsTooSmall) && tcpFrameOK(data) ==> exists K int :: {rawStart(data[hdrLen(data) : ], K)} prefixOK(data[hdrLen(data) : ], K) && !terminal(data[hdrLen(data) : ], rawStart(data[hdrLen(data) : ], K)) && !rawOK(data[hdrLen(data) : ], K))
//@   ensures [too-small-exact] len(data) == hdrLen(data) + bodyLen(data) ==> (errors.Is(err, message.ErrOptionsTooSmall) ==> tcpFrameOK(data) && exists K int :: {rawStart(data[hdrLen(data) : ], K)} prefixOK(data[hdrLen(data) : ], K) && rawOK(data[hdrLen(data) : ], K) && cap(old(m.Options)) == len(old(m.Options)) + nKept(data[hdrLen(data) : ], tcpDefs(data[1 + extBytesOf(data[0] / 16)]), K))
//
// ---- C01: decode(encode(m)) == m for every well-formed message (stream framing) --------------------
//
//@ spec wfMsgT(m message.Message) bool = len(m.Token) <= 8 && m.Code <= 255 && wfOptions(m.Options) && legalOpts(m.Options, tcpDefs(m.Code)) && len(m.Payload) < 2000000000 && len(m.Options) <= 1000
//@ spec isEncT(data []byte, m message.Message) bool = len(data) == tcpSize(m) && 0 <= encLen(m.Options, len(m.Options)) && encLen(m.Options, len(m.Options)) <= 65809 * len(m.Options) && data[0] == 16*lenNib(tcpBody(m)) + len(m.Token) && data[0] % 16 == len(m.Token) && hdrLen(data) == 1 + extLen(tcpBody(m)) + len(m.Token) + 1 && bodyLen(data) == tcpBody(m) && data[1 + extLen(tcpBody(m))] == m.Code && data[1 + extBytesOf(data[0] / 16)] == m.Code && bytesEq(data[1 + extLen(tcpBody(m)) + 1 : 1 + extLen(tcpBody(m)) + 1 + len(m.Token)], m.Token) && optsAtNow(data[1 + extLen(tcpBody(m)) + len(m.Token) + 1 : ], m.Options) && (len(m.Payload) > 0 ==> data[len(data) - len(m.Payload) - 1] == 255 && bytesEq(data[len(data) - len(m.Payload) : ], m.Payload))
//
// Proved for the stream coder: the frame is accepted and fully consumed, code, token and payload and
// the NUMBER of options come back. The per-option equality (IDs, values) is proved for the datagram
// coder (udp/coder), which shares Options.Marshal / Options.Unmarshal and the lemmas; for the stream
// coder that last composition step did not discharge robustly and is not claimed.
//
//@ func VerifDecodeEncoded(data []byte, m message.Message, out *message.Message) (n2 int, e2 error)
//@   requires wfMsgT(m) && isEncT(data, m)
//@   requires [exact-frame] len(data) == hdrLen(data) + bodyLen(data)
//@   requires out != nil && len(out.Options) == 0 && cap(out.Options) >= len(m.Options) && out.Payload == nil
//@   requires distinctObjects(m.Options, out.Options)
//@   modifies out.Options, out.Options[0 : cap(out.Options)], out.Payload, out.Code, out.Token
//@   apply VerifParseOfEncoding(data[hdrLen(data) : ], m.Options, tcpDefs(data[1 + extBytesOf(data[0] / 16)]))
//@   ensures [decodes] e2 == nil && n2 == len(data)
//@   ensures [fields] out.Code == m.Code
//@   ensures [token] len(out.Token) == len(m.Token) && bytesEq(out.Token, m.Token)
//@   ensures [payload-len] len(out.Payload) == len(m.Payload)
//@   ensures [payload-where] len(m.Payload) > 0 ==> out.Payload == data[len(data) - len(m.Payload) : ]
//@   ensures [payload] len(out.Payload) == len(m.Payload) && bytesEq(out.Payload, m.Payload)
//@   ensures [opt-count] len(out.Options) == len(m.Options)

// VerifDecodeEncoded is a ghost function (see the contract above).
func VerifDecodeEncoded(data []byte, m message.Message, out *message.Message) (n2 int, e2 error) {
	n2, e2 = DefaultCoder.Decode(data, out)
	return
}

// Step 2: Encode produces an encoding; composed with step 1 this is the round-trip theorem.
//
//@ func VerifRoundTrip(m message.Message, buf []byte, out *message.Message) (n int, e1 error, n2 int, e2 error)
//@   requires wfMsgT(m) && srcDisjoint(buf, m) && len(buf) >= tcpSize(m)
//@   requires out != nil && len(out.Options) == 0 && cap(out.Options) >= len(m.Options) && out.Payload == nil
//@   requires distinctObjects(m.Options, out.Options)
//@   modifies buf[0 : len(buf)], out.Options, out.Options[0 : cap(out.Options)], out.Payload, out.Code, out.Token
//@   ensures [encodes] e1 == nil && n == old(tcpSize(m))
//@   ensures [decodes] e2 == nil && n2 == n
//@   ensures [fields] out.Code == m.Code
//@   ensures [token] len(out.Token) == len(m.Token) && bytesEqOld(out.Token, m.Token)
//@   ensures [payload] len(out.Payload) == len(m.Payload) && bytesEqOld(out.Payload, m.Payload)
//@   ensures [opt-count] len(out.Options) == len(m.Options)

// VerifRoundTrip is a ghost function: its contract is the round-trip theorem of C01 for the stream coder.
func VerifRoundTrip(m message.Message, buf []byte, out *message.Message) (n int, e1 error, n2 int, e2 error) {
	n, e1 = DefaultCoder.Encode(m, buf)
	if e1 != nil {
		return
	}
	n2, e2 = VerifDecodeEncoded(buf[:n], m, out)
	return
}
